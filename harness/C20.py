"""C20: every configuration option reaches the font it configures.

K1  flag > file > default for every field: the C10 config kernel (shared jobs).
K2  write_font._ufo on a real ufoLib2.Font with symbolic metrics/version/width.
K3  default clip-box quantisation, ppem<->bitmap_resolution, user transform: decided in C05/C14/C01;
    here: the colour-format table and output-format/post decisions.
K4  several configurations in one invocation: the real nanoemoji._run with config loading, ninja
    and toml stubbed; every intermediate a config consumes must be produced by exactly one edge
    that carries THAT config's option values.
"""
from __future__ import annotations

import os
import shutil
import tempfile
from pathlib import Path

import z3

from symx import core, shims
from symx.runner import Job, run_property

from nanoemoji import nanoemoji as NE
from nanoemoji import ninja as NINJA
from nanoemoji import config as CFG
from nanoemoji import write_font as WF
from nanoemoji.config import FontConfig, MasterConfig
from picosvg.svg_transform import Affine2D

_FLAGS_READY = False


def ensure_flags():
    global _FLAGS_READY
    if not _FLAGS_READY:
        from absl import flags

        try:
            flags.FLAGS(["c20"], known_only=True)
        except Exception:
            flags.FLAGS.mark_as_parsed()
        _FLAGS_READY = True


class RecWriter:
    """ninja_syntax.Writer stand-in: records rules and build edges."""

    last = None

    def __init__(self, output, width=78):
        self.rules = {}
        self.edges = []
        RecWriter.last = self

    def rule(self, name, command, **kw):
        self.rules[name] = command

    def build(self, outputs, rule, inputs=None, implicit=None, order_only=None, variables=None, **kw):
        as_list = lambda v: [] if v is None else ([v] if isinstance(v, (str, Path)) else list(v))
        self.edges.append({"outputs": [str(o) for o in as_list(outputs)], "rule": rule, "inputs": [str(i) for i in as_list(inputs)],
                           "implicit": [str(i) for i in as_list(implicit)], "variables": dict(variables or {})})

    def newline(self):
        pass

    def comment(self, c):
        pass

    def variable(self, *a, **k):
        pass


def reset_dest_state():
    for fn in (NE.picosvg_dest, NE.bitmap_dest, NE.zopflipng_dest, NE.pngquant_dest, NE.svg2png_dest, NE.font2png_dest, NE.font2png_html_dest, NE.diff_png_dest):
        if hasattr(fn, "names_seen"):
            del fn.names_seen


def mk_config(i, fmt, srcs, sym):
    """Config i; `sym` = dict of overrides (symbolic or concrete)."""
    master = MasterConfig("regular", "Regular", f"Font.cfg{i}.regular.ufo", (), tuple(srcs))
    sym = dict(sym)
    sym.setdefault("glyphmap_generator", f"my.generator{i}")
    return FontConfig()._replace(output_file=f"Font.cfg{i}.ttf", color_format=fmt, masters=(master,), source_names=tuple(sorted(p.name for p in srcs)), **sym)


def run_driver(configs, build_dir):
    ensure_flags()
    reset_dest_state()
    from absl import flags

    saved_bd = flags.FLAGS.build_dir
    flags.FLAGS.build_dir = build_dir
    sl = [
        shims.Shim("nanoemoji.ninja", "ninja_syntax", type("NS", (), {"Writer": RecWriter}), "ninja_syntax.Writer -> recorder"),
        shims.Shim("nanoemoji.nanoemoji", "maybe_run_ninja", lambda f: None, "the ninja binary is not run"),
        shims.Shim("nanoemoji.nanoemoji", "_write_config_for_build", lambda c: None, "config files are C10's subject"),
        shims.Shim("nanoemoji.config", "load_configs", lambda files, additional_srcs=None: tuple(configs), "configs are given directly (loading is C10's subject)"),
        shims.Shim(shutil, "which", lambda n, *a, **k: "/usr/bin/" + n, "tool lookup (resvg presence)"),
    ]
    try:
        with shims.installed(sl):
            NE._run(["prog"] + [f"c{i}.toml" for i in range(len(configs))])
    finally:
        flags.FLAGS.build_dir = saved_bd
    return RecWriter.last


def producer(w, path):
    return [e for e in w.edges if str(path) in e["outputs"]]


def expected_edges(cfg):
    """For one config: the intermediates its font build consumes and what the producing edge must look like."""
    exp = []
    master = cfg.masters[0]
    for src in master.sources:
        if cfg.has_picosvgs:
            pass
    return exp


# ---------------------------------------------------------------- K4 multi-config


BITMAP_COMBOS = [(pq, zo) for pq in (False, True) for zo in (False, True)]


def job_multi_bitmap(jc):
    """Two bitmap configs sharing sources; bitmap_resolution symbolic, compression flags by structure."""
    jc.encode(NE._run, NE.write_bitmap_builds, NE.write_compressed_bitmap_builds, NE._input_files, NE._dest_for_src, NINJA.NinjaWriter.build)
    c1, c2 = jc.params["c1"], jc.params["c2"]
    shared = jc.params["shared"]
    d = tempfile.mkdtemp(prefix="c20_")
    try:
        srcA = [Path(d) / "src" / "a.svg", Path(d) / "src" / "b.svg"]
        srcB = srcA if shared else [Path(d) / "src2" / "c.svg"]
        inp = {"c1": list(c1), "c2": list(c2), "shared": shared, "r1": core.SymNum(z3.Int("r1")), "r2": core.SymNum(z3.Int("r2"))}

        def body():
            r1, r2 = core.integer("r1", 8, 255), core.integer("r2", 8, 255)
            cfgs = [mk_config(1, "cbdt", srcA, dict(bitmap_resolution=r1, use_pngquant=c1[0], use_zopflipng=c1[1], pngquant_flags="--quality 1")),
                    mk_config(2, "sbix", srcB, dict(bitmap_resolution=r2, use_pngquant=c2[0], use_zopflipng=c2[1], pngquant_flags="--quality 2"))]
            w = run_driver(cfgs, os.path.join(d, "build"))
            # destination names are resolved now: _dest_for_src keeps state in function attributes,
            # which a later replay (another temp dir) would disturb
            dests = {str(src): (NE.bitmap_dest(src), NE.pngquant_dest(src), NE.zopflipng_dest(src)) for cfg in cfgs for src in cfg.masters[0].sources}
            return cfgs, w, dests

        results = jc.explore(body)
        for r in results:
            if not jc.no_exception(r, inp, replay_multi_bitmap, "C20:multi:raises"):
                continue
            cfgs, w, dests = r.value
            jc.reach(r, "ok")
            for pos, cfg in enumerate(cfgs):
                tag = f"{'first' if pos == 0 else 'second'}:{_c(c1)}/{_c(c2)}:{'shared' if shared else 'disjoint'}"
                props = {"bitmap_resolution": [], "pngquant_flags": [], "compression-input": [], "edge-unique": []}
                for src in cfg.masters[0].sources:
                    bm, pq_dest, zo_dest = dests[str(src)]
                    pe = producer(w, bm)
                    props["edge-unique"].append(z3.BoolVal(len(pe) == 1))
                    if len(pe) == 1:
                        props["bitmap_resolution"].append(core.as_term(pe[0]["variables"].get("res", -1)) == core.as_term(cfg.bitmap_resolution))
                    if cfg.use_pngquant:
                        pq = producer(w, pq_dest)
                        props["edge-unique"].append(z3.BoolVal(len(pq) == 1))
                        if len(pq) == 1:
                            props["pngquant_flags"].append(z3.BoolVal(pq[0]["variables"].get("pngquant_flags") == cfg.pngquant_flags))
                            props["compression-input"].append(z3.BoolVal(pq[0]["inputs"] == [str(bm)]))
                    if cfg.use_zopflipng:
                        zo = producer(w, zo_dest)
                        props["edge-unique"].append(z3.BoolVal(len(zo) == 1))
                        want_in = pq_dest if cfg.use_pngquant else bm
                        if len(zo) == 1:
                            props["compression-input"].append(z3.BoolVal(zo[0]["inputs"] == [str(want_in)]))
                for clause, conj in props.items():
                    if conj:
                        jc.prove(r, z3.And(*conj), f"{clause}: the edge producing each intermediate of the {['first', 'second'][pos]} config carries that config's own value",
                                 inp, replay_multi_bitmap, key=f"C20:multi:{clause}:{tag}")
    finally:
        shutil.rmtree(d, ignore_errors=True)


def _c(c):
    return ("pq" if c[0] else "") + ("zo" if c[1] else "") or "none"


def replay_multi_bitmap(inp):
    d = tempfile.mkdtemp(prefix="c20r_")
    try:
        c1, c2, shared = inp["c1"], inp["c2"], inp["shared"]
        srcA = [Path(d) / "src" / "a.svg", Path(d) / "src" / "b.svg"]
        srcB = srcA if shared else [Path(d) / "src2" / "c.svg"]
        r1, r2 = int(inp["r1"]), int(inp["r2"])
        cfgs = [mk_config(1, "cbdt", srcA, dict(bitmap_resolution=r1, use_pngquant=c1[0], use_zopflipng=c1[1], pngquant_flags="--quality 1")),
                mk_config(2, "sbix", srcB, dict(bitmap_resolution=r2, use_pngquant=c2[0], use_zopflipng=c2[1], pngquant_flags="--quality 2"))]
        try:
            w = run_driver(cfgs, os.path.join(d, "build"))
        except Exception as e:
            return {"raised": repr(e)}
        bad = []
        for pos, cfg in enumerate(cfgs):
            for src in cfg.masters[0].sources:
                bm = NE.bitmap_dest(src)
                pe = producer(w, bm)
                if len(pe) != 1:
                    bad.append({"config": pos + 1, "file": str(bm), "producing edges": len(pe)})
                elif pe[0]["variables"].get("res") != cfg.bitmap_resolution:
                    bad.append({"config": pos + 1, "file": str(bm), "built at resolution": pe[0]["variables"].get("res"), "config wants": cfg.bitmap_resolution})
                if cfg.use_pngquant:
                    pq = producer(w, NE.pngquant_dest(src))
                    if len(pq) != 1 or pq[0]["variables"].get("pngquant_flags") != cfg.pngquant_flags or pq[0]["inputs"] != [str(bm)]:
                        bad.append({"config": pos + 1, "pngquant edge": pq, "wants flags": cfg.pngquant_flags})
                if cfg.use_zopflipng:
                    zo = producer(w, NE.zopflipng_dest(src))
                    want_in = NE.pngquant_dest(src) if cfg.use_pngquant else bm
                    if len(zo) != 1 or zo[0]["inputs"] != [str(want_in)]:
                        bad.append({"config": pos + 1, "zopflipng edge inputs": [e["inputs"] for e in zo], "wants": str(want_in)})
        return {"problems": bad[:4]} if bad else None
    finally:
        shutil.rmtree(d, ignore_errors=True)


def job_multi_vector(jc):
    """Two vector configs sharing sources; clip_to_viewbox by structure, reuse_tolerance and metrics symbolic."""
    jc.encode(NE._run, NE.write_picosvg_builds, NE._input_files, NE._update_sources, NE.picosvg_dest)
    k1, k2, shared = jc.params["clip1"], jc.params["clip2"], jc.params["shared"]
    d = tempfile.mkdtemp(prefix="c20_")
    try:
        srcA = [Path(d) / "src" / "a.svg", Path(d) / "src" / "b.svg"]
        srcB = srcA if shared else [Path(d) / "src2" / "c.svg"]
        inp = {"clip1": k1, "clip2": k2, "shared": shared}
        for n in ("t1", "t2"):
            inp[n] = core.SymNum(z3.Real(n))
        for n in ("asc1", "asc2", "desc1", "desc2"):
            inp[n] = core.SymNum(z3.Int(n))

        def body():
            cfgs = [mk_config(1, "glyf_colr_1", srcA, dict(clip_to_viewbox=k1, reuse_tolerance=core.real("t1", -1, 10), ascender=core.integer("asc1", 0, 2000), descender=core.integer("desc1", -1000, 0))),
                    mk_config(2, "picosvg", srcB, dict(clip_to_viewbox=k2, reuse_tolerance=core.real("t2", -1, 10), ascender=core.integer("asc2", 0, 2000), descender=core.integer("desc2", -1000, 0)))]
            w = run_driver(cfgs, os.path.join(d, "build"))
            dests = {}
            for ci, cfg in enumerate(cfgs):
                for src in cfg.masters[0].sources:
                    dd = NE.picosvg_dest(cfg.clip_to_viewbox, src)
                    dests[(ci, str(src))] = (dd, NE.part_file_dest(dd))
                dests[(ci, "inputs")] = [str(f) for f in NE._input_files(cfg, cfg.masters[0])]
            return cfgs, w, dests

        results = jc.explore(body)
        for r in results:
            if not jc.no_exception(r, inp, replay_multi_vector, "C20:multi:raises"):
                continue
            cfgs, w, dests = r.value
            jc.reach(r, "ok")
            for pos, cfg in enumerate(cfgs):
                tag = f"{'first' if pos == 0 else 'second'}:clip{int(k1)}{int(k2)}:{'shared' if shared else 'disjoint'}"
                props = {"picosvg-edge": [], "reuse_tolerance": [], "wh": []}
                for src in cfg.masters[0].sources:
                    dest, part_dest = dests[(pos, str(src))]
                    pe = producer(w, dest)
                    want_rule = "picosvg_clipped" if cfg.clip_to_viewbox else "picosvg_unclipped"
                    props["picosvg-edge"].append(z3.BoolVal(len(pe) == 1 and pe[0]["rule"] == want_rule))
                    part = producer(w, part_dest)
                    if len(part) == 1:
                        props["reuse_tolerance"].append(core.as_term(part[0]["variables"].get("reuse_tolerance", -99)) == core.as_term(cfg.reuse_tolerance))
                        props["wh"].append(core.as_term(part[0]["variables"].get("wh", -99)) == core.as_term(cfg.ascender - cfg.descender))
                    else:
                        props["picosvg-edge"].append(z3.BoolVal(False))
                for clause, conj in props.items():
                    jc.prove(r, z3.And(*conj), f"{clause}: the edge producing each picosvg/part file of the {['first', 'second'][pos]} config carries that config's own value",
                             inp, replay_multi_vector, key=f"C20:multi:{clause}:{tag}")
                # the font edge of this config consumes this config's own resolved files
                fe = producer(w, cfg.output_file)
                ok = len(fe) == 1 and fe[0]["rule"] == "write_font"
                if ok:
                    v = fe[0]["variables"]
                    stem = Path(cfg.output_file).stem
                    ok = str(v.get("config_file")) == f"{stem}.toml" and str(v.get("fea_file")) == f"{stem}.fea" and str(v.get("glyphmap_file")) == f"{stem}.glyphmap"
                    gm = producer(w, f"{stem}.glyphmap")
                    ok = ok and len(gm) == 1 and gm[0]["rule"] == cfg.glyphmap_generator and gm[0]["inputs"] == dests[(pos, "inputs")]
                    fea = producer(w, f"{stem}.fea")
                    ok = ok and len(fea) == 1 and fea[0]["rule"] == "write_fea" and fea[0]["inputs"] == [f"{stem}.glyphmap"]
                jc.prove(r, z3.BoolVal(ok), "font/glyphmap/fea edges of each config use that config's own config file, generator and input files", inp, replay_multi_vector,
                         key=f"C20:multi:font-edge:{tag}")
    finally:
        shutil.rmtree(d, ignore_errors=True)


def replay_multi_vector(inp):
    d = tempfile.mkdtemp(prefix="c20r_")
    try:
        k1, k2, shared = inp["clip1"], inp["clip2"], inp["shared"]
        srcA = [Path(d) / "src" / "a.svg", Path(d) / "src" / "b.svg"]
        srcB = srcA if shared else [Path(d) / "src2" / "c.svg"]
        g = lambda n, dflt: inp.get(n, dflt)
        cfgs = [mk_config(1, "glyf_colr_1", srcA, dict(clip_to_viewbox=k1, reuse_tolerance=float(g("t1", 0.1)), ascender=int(g("asc1", 950)), descender=int(g("desc1", -250)))),
                mk_config(2, "picosvg", srcB, dict(clip_to_viewbox=k2, reuse_tolerance=float(g("t2", 0.1)), ascender=int(g("asc2", 950)), descender=int(g("desc2", -250))))]
        try:
            w = run_driver(cfgs, os.path.join(d, "build"))
        except Exception as e:
            return {"raised": repr(e)}
        bad = []
        for pos, cfg in enumerate(cfgs):
            for src in cfg.masters[0].sources:
                dest = NE.picosvg_dest(cfg.clip_to_viewbox, src)
                pe = producer(w, dest)
                want_rule = "picosvg_clipped" if cfg.clip_to_viewbox else "picosvg_unclipped"
                if len(pe) != 1 or pe[0]["rule"] != want_rule:
                    bad.append({"config": pos + 1, "needs": str(dest), "producing edges": [e["rule"] for e in pe]})
                part = producer(w, NE.part_file_dest(dest))
                if len(part) != 1:
                    bad.append({"config": pos + 1, "part file edges": len(part)})
                else:
                    v = part[0]["variables"]
                    if v.get("reuse_tolerance") != cfg.reuse_tolerance or v.get("wh") != cfg.ascender - cfg.descender:
                        bad.append({"config": pos + 1, "part file built with": v, "config wants": [cfg.reuse_tolerance, cfg.ascender - cfg.descender]})
        return {"problems": bad[:4]} if bad else None
    finally:
        shutil.rmtree(d, ignore_errors=True)


# ---------------------------------------------------------------- K2 _ufo


def replay_ufo(inp):
    import ufo2ft

    cfg = FontConfig()._replace(upem=int(inp["upem"]), ascender=int(inp["asc"]), descender=int(inp["desc"]), linegap=int(inp["gap"]), width=int(inp["width"]),
                                version_major=int(inp["vmaj"]), version_minor=int(inp["vmin"]), keep_glyph_names=bool(inp["keep"]), color_format=inp["fmt"], family="My Fam")
    ufo = WF._ufo(cfg)
    i = ufo.info
    bad = {}
    want = {"familyName": "My Fam", "unitsPerEm": cfg.upem, "ascender": cfg.ascender, "openTypeHheaAscender": cfg.ascender, "openTypeOS2TypoAscender": cfg.ascender,
            "descender": cfg.descender, "openTypeHheaDescender": cfg.descender, "openTypeOS2TypoDescender": cfg.descender, "openTypeHheaLineGap": cfg.linegap,
            "openTypeOS2TypoLineGap": cfg.linegap, "versionMajor": cfg.version_major, "versionMinor": cfg.version_minor}
    for k, v in want.items():
        if getattr(i, k) != v:
            bad[k] = [getattr(i, k), v]
    if ufo[".space"].width != cfg.width or ufo[".space"].unicodes != [0x20] or list(ufo.glyphOrder) != [".notdef", ".space"]:
        bad["space/order"] = [ufo[".space"].width, list(ufo.glyphOrder)]
    if 7 not in (i.openTypeOS2Selection or []):
        bad["USE_TYPO_METRICS"] = i.openTypeOS2Selection
    keep_want = cfg.keep_glyph_names or (cfg.has_svgs and cfg.has_picosvgs)
    if bool(ufo.lib[ufo2ft.constants.KEEP_GLYPH_NAMES]) != bool(keep_want):
        bad["keep_glyph_names"] = [ufo.lib[ufo2ft.constants.KEEP_GLYPH_NAMES], keep_want]
    return bad or None


def job_ufo(jc):
    import ufo2ft

    jc.encode(WF._ufo)
    fmt = jc.params["fmt"]
    names = ["upem", "asc", "desc", "gap", "width", "vmaj", "vmin"]
    inp = {n: core.SymNum(z3.Int(n)) for n in names}
    inp["keep"] = core.SymBool(z3.Bool("keep"))
    inp["fmt"] = fmt

    def body():
        cfg = FontConfig()._replace(upem=core.integer("upem", 16, 16384), ascender=core.integer("asc", 0, 4000), descender=core.integer("desc", -4000, 0),
                                    linegap=core.integer("gap", 0, 1000), width=core.integer("width", 0, 8000), version_major=core.integer("vmaj", 0, 99),
                                    version_minor=core.integer("vmin", 0, 999), keep_glyph_names=core.boolean("keep"), color_format=fmt, family="My Fam")
        return cfg, WF._ufo(cfg)

    with shims.installed([shims.Shim("nanoemoji.write_font", "_draw_notdef", lambda cfg, ufo: None, "ufo2ft StubGlyph drawing is not under test")]):
        results = jc.explore(body)
    for r in results:
        if not jc.no_exception(r, inp, replay_ufo, "C20:ufo:raises"):
            continue
        cfg, ufo = r.value
        jc.reach(r, "ok")
        i = ufo.info
        eq = lambda a, b: core.as_term(a) == core.as_term(b)
        conj = [z3.BoolVal(i.familyName == "My Fam"), eq(i.unitsPerEm, cfg.upem)]
        for k in ("ascender", "openTypeHheaAscender", "openTypeOS2TypoAscender"):
            conj.append(eq(getattr(i, k), cfg.ascender))
        for k in ("descender", "openTypeHheaDescender", "openTypeOS2TypoDescender"):
            conj.append(eq(getattr(i, k), cfg.descender))
        for k in ("openTypeHheaLineGap", "openTypeOS2TypoLineGap"):
            conj.append(eq(getattr(i, k), cfg.linegap))
        conj += [eq(i.versionMajor, cfg.version_major), eq(i.versionMinor, cfg.version_minor), eq(ufo[".space"].width, cfg.width)]
        conj.append(z3.BoolVal(ufo[".space"].unicodes == [0x20] and list(ufo.glyphOrder) == [".notdef", ".space"] and 7 in (i.openTypeOS2Selection or [])))
        keep = ufo.lib[ufo2ft.constants.KEEP_GLYPH_NAMES]
        keep_t = keep.t if isinstance(keep, core.SymBool) else z3.BoolVal(bool(keep))
        has_pico = bool(set(fmt.split("_")) & {"glyf", "colr", "picosvg", "picosvgz"})
        conj.append(keep_t == z3.Or(cfg.keep_glyph_names.t, z3.BoolVal(has_pico)))
        jc.prove(r, z3.And(*conj), "_ufo: family, upem, vertical metrics (hhea+typo), line gap, version, space width, USE_TYPO_METRICS, keep-names flag follow the config",
                 inp, replay_ufo, key=f"C20:ufo:{fmt}")
    jc.expect_reached("ok")


def job_format_table(jc):
    """Finite table: every documented colour format has a generator with the right extension;
    post format 3 unless glyph names were requested (tail of _generate_color_font)."""
    jc.encode(WF._generate_color_font)
    bad = {}
    for fmt in CFG._COLOR_FORMATS:
        g = WF._COLOR_FORMAT_GENERATORS.get(fmt)
        if g is None:
            bad[fmt] = "no generator"
            continue
        want_ext = ".otf" if fmt.startswith(("cff_", "cff2_")) else ".ttf"
        if g.font_ext != want_ext:
            bad[fmt] = [g.font_ext, want_ext]
    if set(WF._COLOR_FORMAT_GENERATORS) != set(CFG._COLOR_FORMATS):
        bad["sets differ"] = sorted(set(WF._COLOR_FORMAT_GENERATORS) ^ set(CFG._COLOR_FORMATS))
    jc.paths += 1
    jc.q["total"] += 1
    jc.concrete_validations += 1
    if bad:
        jc.q["sat"] += 1
        jc.violation("C20:format-table", "colour format table", {}, bad)
    else:
        jc.q["unsat"] += 1


def jobs(tier):
    from harness import C10

    js = [Job("config[no flags,1 master]", C10.job_config, flags=(), masters=1), Job("config[all flags]", C10.job_config, flags=tuple(C10.FLAG_NAMES), masters=1)]
    for n in C10.FLAG_NAMES:
        js.append(Job(f"config[flag {n}]", C10.job_config, flags=(n,), masters=1))
    js.append(Job("config[defaults]", C10.job_defaults))
    for fmt in ("glyf_colr_1", "cbdt", "picosvg", "untouchedsvg") if tier == "quick" else CFG._COLOR_FORMATS:
        js.append(Job(f"ufo[{fmt}]", job_ufo, fmt=fmt))
    js.append(Job("format_table", job_format_table))
    # the user transform reaches glyph placement in font space and in OT-SVG space (kernel of C01/C02)
    from harness import C01

    for which in ("font", "otsvg"):
        for u in ("translate", "general"):
            js.append(Job(f"place[{which},{u}]", C01.job_place, which=which, user=u))
    # clipbox_quantization -> clip-box edges (kernel of C05) and bitmap_resolution -> strike ppem (kernel of C14)
    from harness import C05, C14

    for upem, quant in ((1000, None), (1000, 1), (1024, 7), (2048, 50)):
        js.append(Job(f"colr_ufo[PQ,upem={upem},q={quant}]", C05.job_colr_ufo, order="PQ", upem=upem, quant=quant))
    js.append(Job("bounds[PaintTransform,square,step=20]", C05.job_bounds, template="PaintTransform", outline="square", factor=20))
    for upem, F in ((1024, 1200), (1000, 1200), (2048, 2400)):
        for h in ((64, 96, 106, 128) if tier == "quick" else (16, 33, 64, 77, 96, 106, 128, 136, 200, 255)):
            for fmt in ("cbdt", "sbix"):
                js.append(Job(f"metrics[{fmt},square,upem={upem},F={F},h={h}]", C14.job_metrics, upem=upem, F=F, h=h, mode="square", fmt=fmt))
    from harness import C07

    for fmt in ("glyf_colr_1", "cff2_colr_1", "cff_colr_0", "picosvg", "cbdt", "sbix"):
        js.append(Job(f"post_format[{fmt}]", C07.job_post_format, fmt=fmt))
    for c1 in BITMAP_COMBOS:
        for c2 in BITMAP_COMBOS:
            for shared in (True, False):
                if not shared and (c1, c2) != ((True, True), (True, True)):
                    continue
                js.append(Job(f"multi_bitmap[{_c(c1)}|{_c(c2)}|{'shared' if shared else 'disjoint'}]", job_multi_bitmap, c1=c1, c2=c2, shared=shared))
    for k1 in (True, False):
        for k2 in (True, False):
            js.append(Job(f"multi_vector[clip{int(k1)}{int(k2)}|shared]", job_multi_vector, clip1=k1, clip2=k2, shared=True))
    js.append(Job("multi_vector[clip11|disjoint]", job_multi_vector, clip1=True, clip2=True, shared=False))
    return js


def main(tier):
    return run_property(
        "C20",
        jobs(tier),
        tier=tier,
        explanation="Bounded symbolic execution of the option plumbing: config resolution (flag > file > default, shared with C10), write_font._ufo on a real ufoLib2.Font with symbolic metrics, and the real driver nanoemoji._run on two configurations with symbolic option values and a recording ninja writer.",
        bounds={"configs per invocation": 2, "sources": "2 shared (or disjoint) source files", "bitmap_resolution": "8..255 symbolic", "compression flags / clip_to_viewbox": "all combinations by structure",
                "reuse_tolerance, ascender, descender": "symbolic", "ufo": "ints symbolic (upem 16..16384, metrics +-4000)"},
        outside=["name/head/hhea/OS2/post bytes (ufo2ft)", "the ninja binary and the worker processes", "variable-font configs in a multi-config invocation (asserted away by the driver)"],
        assumptions=["config loading is replaced by handing the driver the FontConfig objects (loading is C10/K1)", "ufo2ft StubGlyph .notdef drawing skipped"],
        shims=["nanoemoji.ninja.ninja_syntax.Writer -> recorder", "maybe_run_ninja/_write_config_for_build -> no-ops", "config.load_configs -> given configs", "shutil.which -> found"],
        stubs=["filesystem: a temp build dir (mkdir only)"],
        budget_s=900 if tier == "quick" else 3000,
    )
