"""Lookup zoo for C11: a real TTFont whose GSUB/GPOS/GDEF are compiled by feaLib from
/verif/data/zoo.fea and reloaded fully decompiled, plus hand-built subtables for the
(type, format) combinations feaLib never emits (Context* formats 1-3, ChainContext* 1-2).
"""
from __future__ import annotations

from io import BytesIO
import os

from fontTools.fontBuilder import FontBuilder
from fontTools.feaLib.builder import addOpenTypeFeatures
from fontTools.pens.ttGlyphPen import TTGlyphPen
from fontTools.ttLib import TTFont
from fontTools.ttLib.tables import otTables as ot

NAMES = [".notdef"] + list("abcdefgh") + ["f_i", "f_l", "acute", "grave", "dotbelow", "cedilla"]
FEA = os.path.join(os.path.dirname(os.path.dirname(os.path.abspath(__file__))), "data", "zoo.fea")


def cov(glyphs):
    c = ot.Coverage()
    c.glyphs = list(glyphs)
    return c


def _classdef(mapping):
    cd = ot.ClassDef()
    cd.classDefs = dict(mapping)
    return cd


def _rec(kind):
    r = getattr(ot, kind)()
    r.SequenceIndex = 0
    r.LookupListIndex = 0
    return r


def context1(kind):
    """Context{Subst,Pos} format 1: Coverage || {Sub,Pos}RuleSet."""
    P = "Sub" if kind == "Subst" else "Pos"
    st = getattr(ot, f"Context{kind}")()
    st.Format = 1
    glyphs = ["d", "a", "g", "b"]
    st.Coverage = cov(glyphs)
    sets = []
    for i, g in enumerate(glyphs):
        rs = getattr(ot, f"{P}RuleSet")()
        rule = getattr(ot, f"{P}Rule")()
        rule.GlyphCount = 2
        rule.Input = ["h"]
        setattr(rule, f"{kind}Count", 1)
        setattr(rule, f"{kind}LookupRecord", [_rec(f"{kind}LookupRecord")])
        setattr(rs, f"{P}Rule", [rule])
        setattr(rs, f"{P}RuleCount", 1)
        sets.append(rs)
    setattr(st, f"{P}RuleSet", sets)
    setattr(st, f"{P}RuleSetCount", len(sets))
    return st


def context2(kind):
    P = "Sub" if kind == "Subst" else "Pos"
    st = getattr(ot, f"Context{kind}")()
    st.Format = 2
    st.Coverage = cov(["e", "a", "c"])
    st.ClassDef = _classdef({"a": 1, "c": 1, "e": 2, "h": 2})
    sets = []
    for i in range(3):
        if i == 0:
            sets.append(None)
            continue
        cs = getattr(ot, f"{P}ClassSet")()
        rule = getattr(ot, f"{P}ClassRule")()
        rule.GlyphCount = 2
        rule.Class = [2]
        setattr(rule, f"{kind}Count", 1)
        setattr(rule, f"{kind}LookupRecord", [_rec(f"{kind}LookupRecord")])
        setattr(cs, f"{P}ClassRule", [rule])
        setattr(cs, f"{P}ClassRuleCount", 1)
        sets.append(cs)
    setattr(st, f"{P}ClassSet", sets)
    setattr(st, f"{P}ClassSetCount", len(sets))
    return st


def context3(kind):
    st = getattr(ot, f"Context{kind}")()
    st.Format = 3
    st.GlyphCount = 2
    st.Coverage = [cov(["c", "a", "h"]), cov(["g", "b"])]
    setattr(st, f"{kind}Count", 1)
    setattr(st, f"{kind}LookupRecord", [_rec(f"{kind}LookupRecord")])
    return st


def chain1(kind):
    P = "Sub" if kind == "Subst" else "Pos"
    st = getattr(ot, f"ChainContext{kind}")()
    st.Format = 1
    glyphs = ["h", "c", "a", "e"]
    st.Coverage = cov(glyphs)
    sets = []
    for g in glyphs:
        rs = getattr(ot, f"Chain{P}RuleSet")()
        rule = getattr(ot, f"Chain{P}Rule")()
        rule.BacktrackGlyphCount = 1
        rule.Backtrack = ["b"]
        rule.InputGlyphCount = 2
        rule.Input = ["d"]
        rule.LookAheadGlyphCount = 1
        rule.LookAhead = ["g"]
        setattr(rule, f"{kind}Count", 1)
        setattr(rule, f"{kind}LookupRecord", [_rec(f"{kind}LookupRecord")])
        setattr(rs, f"Chain{P}Rule", [rule])
        setattr(rs, f"Chain{P}RuleCount", 1)
        sets.append(rs)
    setattr(st, f"Chain{P}RuleSet", sets)
    setattr(st, f"Chain{P}RuleSetCount", len(sets))
    return st


def chain2(kind):
    P = "Sub" if kind == "Subst" else "Pos"
    st = getattr(ot, f"ChainContext{kind}")()
    st.Format = 2
    st.Coverage = cov(["g", "a", "d"])
    st.BacktrackClassDef = _classdef({"b": 1})
    st.InputClassDef = _classdef({"a": 1, "d": 1, "g": 2})
    st.LookAheadClassDef = _classdef({"h": 1})
    sets = [None]
    for i in range(2):
        cs = getattr(ot, f"Chain{P}ClassSet")()
        rule = getattr(ot, f"Chain{P}ClassRule")()
        rule.BacktrackGlyphCount = 1
        rule.Backtrack = [1]
        rule.InputGlyphCount = 1
        rule.Input = []
        rule.LookAheadGlyphCount = 1
        rule.LookAhead = [1]
        setattr(rule, f"{kind}Count", 1)
        setattr(rule, f"{kind}LookupRecord", [_rec(f"{kind}LookupRecord")])
        setattr(cs, f"Chain{P}ClassRule", [rule])
        setattr(cs, f"Chain{P}ClassRuleCount", 1)
        sets.append(cs)
    setattr(st, f"Chain{P}ClassSet", sets)
    setattr(st, f"Chain{P}ClassSetCount", len(sets))
    return st


def _add_lookup(table, lookup_type, subtable):
    lk = ot.Lookup()
    lk.LookupType = lookup_type
    lk.LookupFlag = 0
    lk.SubTable = [subtable]
    lk.SubTableCount = 1
    table.LookupList.Lookup.append(lk)
    table.LookupList.LookupCount = len(table.LookupList.Lookup)


def build_zoo(variant=None) -> TTFont:
    fb = FontBuilder(1000, isTTF=True)
    fb.setupGlyphOrder(NAMES)
    fb.setupCharacterMap({ord(c): c for c in "abcdefgh"})
    g = TTGlyphPen(None).glyph()
    fb.setupGlyf({n: g for n in NAMES})
    fb.setupHorizontalMetrics({n: (500, 0) for n in NAMES})
    fb.setupHorizontalHeader()
    fb.setupNameTable({})
    fb.setupOS2()
    fb.setupPost()
    addOpenTypeFeatures(fb.font, FEA)
    b = BytesIO()
    fb.font.save(b)
    b.seek(0)
    f = TTFont(b, lazy=False)
    f.ensureDecompiled()
    # hand-built subtables (not referenced by any feature; never compiled)
    gsub, gpos = f["GSUB"].table, f["GPOS"].table
    for fn in (context1, context2, context3):
        _add_lookup(gsub, 5, fn("Subst"))
        _add_lookup(gpos, 7, fn("Pos"))
    for fn in (chain1, chain2):
        _add_lookup(gsub, 6, fn("Subst"))
        _add_lookup(gpos, 8, fn("Pos"))
    if variant == "empty lookup first":
        # a lookup without subtables (subsetters leave these behind) ahead of every other lookup: whether a
        # table has children is a fact about that instance, the walk must still reach its siblings' subtables
        for table in (gsub, gpos):
            lk = ot.Lookup()
            lk.LookupType, lk.LookupFlag, lk.SubTable, lk.SubTableCount = table.LookupList.Lookup[0].LookupType, 0, [], 0
            table.LookupList.Lookup.insert(0, lk)
            table.LookupList.LookupCount += 1
    return f
