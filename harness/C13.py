"""C13: COLR -> SVG conversion preserves the picture for supported paint graphs.

Kernels: colr_to_svg._colr_v1_glyph_to_svg, _colr_v1_paint_to_svg, _apply_transform,
_apply_gradient_ot_paint, _gradient_paint, _color, _colr_v0_glyph_to_svg,
map_font_space_to_viewbox, glyph_region, _draw_svg_path, svg_path.SVGPathPen,
Paint.from_ot + every gettransform, svg._apply_gradient_paint/_define_*_gradient/
_map_gradient_coordinates/_apply_solid_paint -- run on fontTools ot.Paint graphs with symbolic
numeric fields, through lxml with token strings.
Oracles: ot_semantics (COLR spec) vs svg_semantics (SVG spec).
"""
from __future__ import annotations

import contextlib
from fractions import Fraction

import os

import z3
from fontTools.ttLib.tables import otTables as ot
from fontTools.ttLib.tables.C_P_A_L_ import Color as CpalColor
from fontTools.pens.recordingPen import DecomposingRecordingPen
from fontTools.pens.basePen import decomposeQuadraticSegment

from symx import core, shims
from symx.runner import Job, run_property
from oracle import paint_semantics as ps
from oracle import ot_semantics as ots
from oracle import svg_semantics as svs

from nanoemoji import colr_to_svg as C2S
from nanoemoji import svg as SVGMOD
from nanoemoji import paint as P
from nanoemoji import colors as COLORS
from picosvg.svg_transform import Affine2D
from picosvg.geometric_types import Rect
from harness import C16_radial as RS

ASC, DESC = 950, -250
# scalar attributes (opacity, stop offset) are emitted with 3 decimals; concrete values are
# really rounded even in the algebraic stage, so compare them within half a unit in the 3rd digit
ATOL = Fraction(1, 1000)
NUDGE = Fraction(0.00001)  # the exact double nanoemoji adds (svg.py, issue 268)


class Obj:
    def __init__(self, **k):
        self.__dict__.update(k)


class GlyphObj:
    def __init__(self, ops):
        self.ops = ops

    def draw(self, pen):
        for op, args in self.ops:
            getattr(pen, op)(*args)


GLYPHS = {
    "sq": GlyphObj([("moveTo", [(0, 0)]), ("lineTo", [(100, 0)]), ("lineTo", [(100, 100)]), ("lineTo", [(0, 100)]), ("closePath", [])]),
    "tri": GlyphObj([("moveTo", [(10, -20)]), ("lineTo", [(300, 40)]), ("lineTo", [(-50, 500)]), ("closePath", [])]),
    "cub": GlyphObj([("moveTo", [(600, 700)]), ("curveTo", [(650, 900), (800, 950), (900, 700)]), ("lineTo", [(750, 600)]), ("closePath", [])]),
    "quad": GlyphObj([("moveTo", [(0, 0)]), ("qCurveTo", [(150, -60), (200, 100)]), ("lineTo", [(0, 250)]), ("closePath", [])]),
}
GLYPHS["comp"] = GlyphObj([("addComponent", ["sq", (1, 0, 0, 1, 50, 60)]), ("addComponent", ["tri", (0.5, 0, 0, 0.5, 0, 0)])])


class PyPathops:
    """nanoemoji.svg_path.pathops stand-in: the Cython decompose_quadratic_segment replaced by
    fontTools' pure-Python equivalent (validated concretely against skia-pathops)."""

    @staticmethod
    def decompose_quadratic_segment(points):
        return decomposeQuadraticSegment(points)


def glyph_points(name):
    pen = DecomposingRecordingPen(GLYPHS)
    GLYPHS[name].draw(pen)
    segs = []
    for op, pts in pen.value:
        if op == "qCurveTo":
            for c, e in decomposeQuadraticSegment(pts):
                segs.append(("Q", [c, e]))
        elif op in ("moveTo", "lineTo", "curveTo"):
            segs.append(({"moveTo": "M", "lineTo": "L", "curveTo": "C"}[op], list(pts)))
        elif op == "closePath":
            segs.append(("Z", []))
    return segs


PALETTE = [CpalColor(red=0, green=0, blue=0, alpha=255), CpalColor(red=255, green=0, blue=0, alpha=255), CpalColor(red=1, green=2, blue=250, alpha=128), CpalColor(red=0, green=0, blue=0, alpha=64)]
PALETTE2 = [CpalColor(red=9, green=9, blue=9, alpha=255), CpalColor(red=0, green=255, blue=0, alpha=255), CpalColor(red=0, green=0, blue=255, alpha=255), CpalColor(red=0, green=0, blue=0, alpha=64)]


class Font(dict):
    def getGlyphSet(self):
        return GLYPHS


def mk_font(layers, base_records, npal=1, width=1275):
    f = Font()
    f["CPAL"] = Obj(palettes=[PALETTE] + ([PALETTE2] if npal > 1 else []))
    f["COLR"] = Obj(version=1, table=Obj(LayerList=Obj(Paint=layers), BaseGlyphList=Obj(BaseGlyphPaintRecord=base_records)))
    f["hmtx"] = {"base": (width, 0), "other": (width, 0), "third": (width, 0)}
    f["OS/2"] = Obj(sTypoAscender=ASC, sTypoDescender=DESC)
    return f


# ------------------------------------------------------------------ ot.Paint builders


def _p(fmt, **k):
    p = ot.Paint()
    p.Format = fmt
    for a, v in k.items():
        setattr(p, a, v)
    return p


def R(n, lo=-2000, hi=2000):
    return core.real(n, lo, hi)


def solid(idx=1, alpha=None, n="al"):
    return _p(2, PaletteIndex=idx, Alpha=R(n, 0, 1) if alpha is None else alpha)


def colorline(nstops, sfx, extend=0, idxs=(1, 2, 0)):
    cl = ot.ColorLine()
    cl.Extend = extend
    cl.ColorStop = []
    for i in range(nstops):
        st = ot.ColorStop()
        st.StopOffset = R(f"off{sfx}{i}", 0, 1)
        st.PaletteIndex = idxs[i % len(idxs)]
        st.Alpha = R(f"sa{sfx}{i}", 0, 1) if i == 0 else 1.0
        cl.ColorStop.append(st)
    return cl


def linear(sfx="", extend=0):
    return _p(4, ColorLine=colorline(2, sfx, extend), x0=R("x0" + sfx), y0=R("y0" + sfx), x1=R("x1" + sfx), y1=R("y1" + sfx), x2=R("x2" + sfx), y2=R("y2" + sfx))


def radial(sfx="", extend=0):
    return _p(6, ColorLine=colorline(2, sfx, extend), x0=R("cx0" + sfx), y0=R("cy0" + sfx), r0=R("r0" + sfx, 0, 2000), x1=R("cx1" + sfx), y1=R("cy1" + sfx), r1=R("r1" + sfx, 0, 2000))


def glyph(name, paint):
    return _p(10, Glyph=name, Paint=paint)


EPS = Fraction(1, 64)


def nonzero(v):
    """Degenerate (non-invertible) transforms paint nothing; the property is about pictures."""
    if isinstance(v, core.SymNum):
        core.assume(core.sym_or(v >= EPS, v <= -EPS))
    elif abs(v) < float(EPS):
        raise core.PathAbort()
    return v


def xform(kind, child, sfx=""):
    c = dict(centerX=R("ccx" + sfx), centerY=R("ccy" + sfx))
    if kind == "Transform":
        t = ot.Affine2x3()
        t.xx, t.yx, t.xy, t.yy, t.dx, t.dy = (R("m0" + sfx, -4, 4), R("m1" + sfx, -4, 4), R("m2" + sfx, -4, 4), R("m3" + sfx, -4, 4), R("m4" + sfx), R("m5" + sfx))
        nonzero(t.xx * t.yy - t.yx * t.xy)
        return _p(12, Transform=t, Paint=child)
    if kind == "Translate":
        return _p(14, dx=R("dx" + sfx), dy=R("dy" + sfx), Paint=child)
    if kind == "Scale":
        return _p(16, scaleX=nonzero(R("sx" + sfx, -2, 2)), scaleY=nonzero(R("sy" + sfx, -2, 2)), Paint=child)
    if kind == "ScaleAroundCenter":
        return _p(18, scaleX=nonzero(R("sx" + sfx, -2, 2)), scaleY=nonzero(R("sy" + sfx, -2, 2)), Paint=child, **c)
    if kind == "ScaleUniform":
        return _p(20, scale=nonzero(R("s" + sfx, -2, 2)), Paint=child)
    if kind == "ScaleUniformAroundCenter":
        return _p(22, scale=nonzero(R("s" + sfx, -2, 2)), Paint=child, **c)
    if kind == "Rotate":
        return _p(24, angle=R("ang" + sfx, -360, 360), Paint=child)
    if kind == "RotateAroundCenter":
        return _p(26, angle=R("ang" + sfx, -360, 360), Paint=child, **c)
    if kind == "Skew":
        return _p(28, xSkewAngle=R("xs" + sfx, -80, 80), ySkewAngle=R("ys" + sfx, -80, 80), Paint=child)
    if kind == "SkewAroundCenter":
        return _p(30, xSkewAngle=R("xs" + sfx, -80, 80), ySkewAngle=R("ys" + sfx, -80, 80), Paint=child, **c)
    raise KeyError(kind)


def layers_ref(first, n):
    return _p(1, FirstLayerIndex=first, NumLayers=n)


def composite(src, alpha_name="ga", idx=0):
    return _p(32, CompositeMode=5, SourcePaint=src, BackdropPaint=_p(2, PaletteIndex=idx, Alpha=R(alpha_name, 0, 1)))


XFORMS = ["Transform", "Translate", "Scale", "ScaleAroundCenter", "ScaleUniform", "ScaleUniformAroundCenter", "Rotate", "RotateAroundCenter", "Skew", "SkewAroundCenter"]


def T_xform_solid(kind, g="sq"):
    def build():
        return xform(kind, glyph(g, solid())), [], []
    return build


def T_nested(k1, k2, g="tri"):
    def build():
        return xform(k1, xform(k2, glyph(g, solid()), "b"), "a"), [], []
    return build


def T_xform_linear(kind, g="sq", where="above"):
    def build():
        if where == "above":
            return xform(kind, glyph(g, linear())), [], []
        return glyph(g, xform(kind, linear())), [], []
    return build


def T_radial(kind, g="sq", where="none"):
    def build():
        if where == "none":
            return glyph(g, radial()), [], []
        if where == "above":
            return xform(kind, glyph(g, radial())), [], []
        return glyph(g, xform(kind, radial())), [], []
    return build


def T_layers():
    def build():
        ll = [glyph("sq", solid(1, n="a0")), xform("Translate", glyph("tri", solid(2, n="a1"))), glyph("cub", solid(0xFFFF, n="a2")), glyph("comp", solid(0, n="a3"))]
        inner = layers_ref(2, 2)
        ll.append(inner)  # index 4: nested layers
        return layers_ref(0, 2), ll, []
    return build


def T_nested_layers():
    def build():
        ll = [glyph("sq", solid(1, n="a0")), glyph("tri", solid(2, n="a1")), glyph("cub", solid(0, n="a2"))]
        ll.append(layers_ref(1, 2))  # 3
        ll.append(xform("Scale", layers_ref(3, 1)))  # 4 : transform above a nested layer list
        return layers_ref(0, 1), ll + [], []
    return build


def T_nested_layers2():
    def build():
        ll = [glyph("sq", solid(1, n="a0")), glyph("tri", solid(2, n="a1")), glyph("cub", solid(0, n="a2"))]
        inner = layers_ref(1, 2)
        root = _p(1, FirstLayerIndex=3, NumLayers=2)
        ll += [glyph("quad", solid(1, n="a3")), xform("Translate", inner)]
        return root, ll, []
    return build


def T_group(idx=0):
    """group opacity = backdrop paint alpha x the alpha of its (black) palette entry"""
    def build():
        ll = [glyph("sq", solid(1, n="a0")), xform("Translate", glyph("tri", solid(2, n="a1")))]
        return composite(layers_ref(0, 2), idx=idx), ll, []
    return build


def T_colrglyph(with_xform):
    def build():
        rec = Obj(BaseGlyph="other", Paint=glyph("tri", linear("o")))
        root = _p(11, Glyph="other")
        if with_xform:
            root = xform("Transform", root)
        return root, [], [rec]
    return build


def T_composite_glyph():
    def build():
        return xform("Rotate", glyph("comp", solid())), [], []
    return build


def T_quad():
    def build():
        return xform("Translate", glyph("quad", solid())), [], []
    return build


def T_depth4(gradient=False):
    """Translate > group composite > Scale > layers[Skew>glyph, glyph].  With a linear gradient on the second layer the
    gradient functional under a symbolic non-uniform scale is beyond z3's nonlinear arithmetic (measured: every such
    query `unknown` at 10-15 s, > 15 min per job) -- that variant is kept for probing (C13_PROBE=1) and is not
    registered; gradients under a symbolic scale/transform are decided one level at a time by
    'glyph>Scale>radial', 'Transform>glyph>linear' and 'glyph>Transform>linear'."""
    def build():
        ll = [xform("Skew", glyph("sq", solid(1, n="a0")), "k"), glyph("tri", linear("l") if gradient else solid(2, n="a1"))]
        return xform("Translate", composite(xform("Scale", layers_ref(0, 2), "s")), "t"), ll, []
    return build


def T_shared_gradient():
    """Three colour glyphs: base and 'other' use the same gradient; 'third' has [solid, same gradient]."""
    def build():
        def G():
            return linear("g")
        rec2 = Obj(BaseGlyph="other", Paint=glyph("tri", G()))
        ll = [glyph("cub", solid(2, n="a0")), glyph("sq", G())]
        rec3 = Obj(BaseGlyph="third", Paint=layers_ref(0, 2))
        return glyph("sq", G()), ll, [rec2, rec3]
    return build


TEMPLATES = {}
for k in XFORMS:
    TEMPLATES[f"{k}>glyph>solid"] = T_xform_solid(k)
TEMPLATES["Translate>Scale>glyph"] = T_nested("Translate", "Scale")
TEMPLATES["Scale>Translate>glyph"] = T_nested("Scale", "Translate")
TEMPLATES["Rotate>Transform>glyph"] = T_nested("Rotate", "Transform")
TEMPLATES["glyph>linear"] = T_xform_linear(None, where="x") if False else (lambda: (glyph("sq", linear()), [], []))
TEMPLATES["Transform>glyph>linear"] = T_xform_linear("Transform")
TEMPLATES["glyph>Transform>linear"] = T_xform_linear("Transform", where="below")
TEMPLATES["Translate>glyph>linear"] = T_xform_linear("Translate")
TEMPLATES["glyph>radial"] = T_radial(None)
TEMPLATES["ScaleUniform>glyph>radial"] = T_radial("ScaleUniform", where="above")
TEMPLATES["glyph>Scale>radial"] = T_radial("Scale", where="below")
TEMPLATES["Translate>glyph>radial"] = T_radial("Translate", where="above")
TEMPLATES["layers(+nested,currentColor,composite glyph)"] = T_layers()
TEMPLATES["layers>Scale>layers"] = T_nested_layers()
TEMPLATES["layers>[glyph,Translate>layers]"] = T_nested_layers2()
TEMPLATES["group-opacity composite"] = T_group()
TEMPLATES["group-opacity composite (translucent black palette entry)"] = T_group(3)
TEMPLATES["PaintColrGlyph"] = T_colrglyph(False)
TEMPLATES["Transform>PaintColrGlyph"] = T_colrglyph(True)
TEMPLATES["three glyphs sharing a gradient"] = T_shared_gradient()
TEMPLATES["Rotate>composite glyph"] = T_composite_glyph()
TEMPLATES["Translate>quad glyph"] = T_quad()
TEMPLATES["depth4: Translate>group>Scale>layers[Skew>glyph, glyph>solid]"] = T_depth4()
if os.environ.get("C13_PROBE"):
    TEMPLATES["depth4: Translate>group>Scale>layers[Skew>glyph, glyph>linear]"] = T_depth4(gradient=True)

QUICK = ["Transform>glyph>solid", "Translate>glyph>solid", "ScaleAroundCenter>glyph>solid", "RotateAroundCenter>glyph>solid", "SkewAroundCenter>glyph>solid",
         "ScaleUniform>glyph>solid", "Translate>Scale>glyph", "Scale>Translate>glyph", "glyph>linear", "Transform>glyph>linear", "glyph>Transform>linear",
         "glyph>radial", "ScaleUniform>glyph>radial", "layers(+nested,currentColor,composite glyph)", "layers>[glyph,Translate>layers]", "group-opacity composite", "group-opacity composite (translucent black palette entry)",
         "PaintColrGlyph", "Transform>PaintColrGlyph", "Translate>quad glyph", "three glyphs sharing a gradient"]

VIEWBOXES = {"1200sq": Rect(0, 0, 1200, 1200), "150off": Rect(10, -20, 150, 150), "600x300": Rect(-5, 7, 600, 300)}


def font_to_vbox_spec(vb: Rect, width):
    """Inverse of the placement spec (C01): uniform scale (asc-desc)/vb.h, y flipped at the
    ascender, centred in the advance. Exact rationals (all test view boxes give dyadic scales)."""
    s = Fraction(ASC - DESC) / Fraction(vb.h)
    dx = (Fraction(width) - s * Fraction(vb.w)) / 2
    return (1 / s, 0, 0, -1 / s, Fraction(vb.x) - dx / s, Fraction(vb.y) + Fraction(ASC) / s)


# ------------------------------------------------------------------ comparison


def parse_svg_color(s):
    """-> (kind, rgb, palette_index)"""
    import re

    s = s.strip()
    m = re.fullmatch(r"var\(--color(\d+),\s*(.+)\)", s)
    if m:
        k, rgb, _ = parse_svg_color(m.group(2))
        return (k, rgb, int(m.group(1)))
    if s == "currentColor":
        return ("currentColor", None, None)
    if s.startswith("#") and len(s) == 7:
        return ("rgb", (int(s[1:3], 16), int(s[3:5], 16), int(s[5:7], 16)), None)
    rgb = COLORS.css_color(s)
    if rgb is None:
        raise ValueError(f"unparsed colour {s}")
    return ("rgb", tuple(rgb), None)


def same_color(ot_color, svg_str):
    kind, rgb, idx, _alpha = ot_color
    k2, rgb2, idx2 = parse_svg_color(svg_str)
    return kind == k2 and (rgb is None or tuple(rgb) == tuple(rgb2)) and idx == idx2


def _without_safari_nudge(r, gt):
    """Safari workaround in svg._apply_gradient_common_parts: an involutory gradientTransform (a reflection) gets
    0.00001 added to its first entry on purpose (issue 268).  Where the path condition entails that the emitted
    matrix minus that nudge is involutory, the matrix is read back without it; the nudge itself moves the gradient
    by <= 1e-5 x coordinate, far below the 3-digit output rounding that is already outside the claim."""
    if all(not isinstance(v, core.SymNum) for v in gt):
        return gt
    n = (gt[0] - NUDGE,) + tuple(gt[1:])
    if core.check(r.constraints(), z3.Not(ps.aff_eq(ps.mul(n, n), ps.IDENT)), 5000)[0] == core.Verdict.UNSAT:
        return n
    return gt


def compare(r, font, root, svg_root, Fm):
    """Build the property for one path: leaf-for-leaf equality."""
    with core.post(r):
        FALSE = {"structure (leaf count/order, segment types, fill kinds, colours, references resolve)": (z3.BoolVal(False), [])}
        ol = ots.denote_ot(font, root)
        try:
            sl = svs.denote_svg(svg_root, r.tokens, gradient_transform_hook=lambda gt: _without_safari_nudge(r, gt))
        except KeyError:
            return FALSE  # a url(#id)/href that does not resolve inside its own document
        conj, scal, grad, extra = [], [], [], []
        if len(ol) != len(sl):
            return FALSE
        for a, b in zip(ol, sl):
            M = ps.mul(Fm, a.M)
            want = glyph_points(a.glyph)
            if [c for c, _ in want] != [c for c, _ in b.segments]:
                return FALSE
            for (_, wp), (_, gp) in zip(want, b.segments):
                if len(wp) != len(gp):
                    return FALSE
                for p, q in zip(wp, gp):
                    conj.append(ps.pt_eq(ps.apply(M, p), q))
            if len(a.groups) != len(b.groups):
                return FALSE
            for x, y in zip(a.groups, b.groups):
                scal.append(core.eq_tol(x, y, ATOL))
            if a.fill[0] != b.fill[0]:
                return FALSE
            if a.fill[0] == "solid":
                col = a.fill[1]
                if not same_color(col, b.fill[1]):
                    return FALSE
                scal.append(core.eq_tol(col[3], b.opacity, ATOL))
                continue
            scal.append(core.eq_tol(b.opacity, 1, ATOL))
            st_a, ext = a.fill[-2], a.fill[-1]
            st_b, spread = b.fill[-2], b.fill[-1]
            if len(st_a) != len(st_b) or {0: "pad", 1: "repeat", 2: "reflect"}[ext] != spread:
                return FALSE
            for (off, col), (off2, cstr, sop) in zip(st_a, st_b):
                if not same_color(col, cstr):
                    return FALSE
                scal.append(core.eq_tol(off, off2, ATOL))
                scal.append(core.eq_tol(col[3], sop, ATOL))
            if a.fill[0] == "linear":
                g1 = tuple(ps.apply(Fm, p) for p in a.fill[1:4])
                grad.append(ps.linear_same(g1, b.fill[1:4]))
            else:
                c0, r0, c1, r1, M1 = a.fill[1:6]
                prop, defs = ps.radial_same((c0, r0, c1, r1, ps.mul(Fm, M1)), b.fill[1:6])
                grad.append(prop)
                extra += defs
        out = {"outline points == COLR outline mapped to the viewBox (leaf for leaf, in order)": (z3.And(*conj) if conj else z3.BoolVal(True), [])}
        if scal:
            out["opacities / group alphas / stop offsets agree (3-digit output)"] = (z3.And(*scal), [])
        if grad:
            out["gradient colours every point alike (linear functional / radial circle family)"] = (z3.And(*grad), extra)
        return out


from picosvg.geometric_types import Vector

_real_projection = Vector.projection


def stub_projection(self, other):
    """Contract stub for picosvg Vector.projection (documented: 'the vector projection of self
    onto other'): v = lam * other with lam * (other . other) = self . other; zero vector -> 0.
    Avoids the sqrt/unit-vector route (h^2 = |other|^2 with divisions by h), which z3 cannot
    relate back to the cross-multiplied gradient functional within the time limit."""
    if not any(isinstance(v, core.SymNum) for v in tuple(self) + tuple(other)):
        return _real_projection(self, other)
    oo = other.x * other.x + other.y * other.y
    if oo == 0:
        return Vector()
    lam = core.fresh_real("lam")
    core.ctx().add(core.as_term(lam * oo) == core.as_term(self.x * other.x + self.y * other.y), definitional=True)
    return Vector(lam * other.x, lam * other.y)


def validate_projection(jc):
    for a, b in ((Vector(3.0, 4.0), Vector(1.0, 2.0)), (Vector(-7.5, 2.0), Vector(0.0, 5.0)), (Vector(1.0, 1.0), Vector(-3.0, 0.5))):
        v = _real_projection(a, b)
        lam = (a.x * b.x + a.y * b.y) / (b.x * b.x + b.y * b.y)
        if abs(v.x - lam * b.x) > 1e-9 or abs(v.y - lam * b.y) > 1e-9:
            raise core.HarnessError("picosvg Vector.projection violates the contract used by the stub")
        jc.concrete_validations += 1
    if tuple(_real_projection(Vector(1.0, 2.0), Vector(0, 0))) != (0, 0):
        raise core.HarnessError("picosvg Vector.projection onto zero is not zero")


@contextlib.contextmanager
def c13_shims(stub_radial=True):
    sl = shims.std_shims() + [shims.Shim("nanoemoji.svg_path", "pathops", PyPathops, "Cython decompose_quadratic_segment -> fontTools pure Python")]
    sl += shims.numeric_shims("nanoemoji.colr_to_svg", "nanoemoji.svg")
    saved_hash = core.SymNum.__hash__
    core.SymNum.__hash__ = lambda self: 0
    saved = (Affine2D.decompose_scale, Affine2D.decompose_translation, Affine2D.inverse)
    try:
        with shims.installed(sl):
            Vector.projection = stub_projection
            if stub_radial:
                Affine2D.decompose_scale = RS.stub_decompose_scale
                Affine2D.decompose_translation = RS.stub_decompose_translation
                Affine2D.inverse = RS.stub_inverse
            yield
    finally:
        Affine2D.decompose_scale, Affine2D.decompose_translation, Affine2D.inverse = saved
        Vector.projection = _real_projection
        core.SymNum.__hash__ = saved_hash


def replay_c13(inp):
    """Concrete re-run: build the same graph with floats, convert with the real code, compare
    numerically (tolerance 1e-2 in viewBox units, which covers the 3-digit rounding)."""
    tmpl, vbn, npal = inp["template"], inp["viewbox"], inp["npal"]
    vals = {k: float(v) for k, v in inp.items() if k not in ("template", "viewbox", "npal")}
    global R
    saved = R
    R = lambda n, lo=-2000, hi=2000: vals.get(n, 0.0)
    try:
        root, layers, recs = TEMPLATES[tmpl]()
    except core.PathAbort:
        return None  # witness outside the harness assumptions (degenerate transform)
    finally:
        R = saved
    font = mk_font(layers, [Obj(BaseGlyph="base", Paint=root)] + recs, npal)
    vb = VIEWBOXES[vbn]
    try:
        svgs = C2S.colr_to_svg(lambda g: vb, font)
    except ValueError as e:
        if "Expected uniform scale" in str(e):
            return None
        return {"raised": repr(e)}
    except Exception as e:
        return {"raised": repr(e)}
    Fm = tuple(float(x) for x in font_to_vbox_spec(vb, 1275))
    for rec in font["COLR"].table.BaseGlyphList.BaseGlyphPaintRecord:
        bad = _replay_one(font, rec.Paint, svgs[rec.BaseGlyph].svg_root, Fm)
        if bad:
            bad["glyph"] = rec.BaseGlyph
            return bad
    return None


def _replay_one(font, root, svg_root, Fm):
    from lxml import etree

    ol = ots.denote_ot(font, root)
    try:
        sl = svs.denote_svg(svg_root, {})
    except KeyError as e:
        return {"dangling reference": repr(e), "svg": etree.tostring(svg_root).decode()[:700]}
    if len(ol) != len(sl):
        return {"leaf_count": [len(ol), len(sl)]}

    worst = 0.0
    for a, b in zip(ol, sl):
        M = ps.mul(Fm, a.M)
        want = glyph_points(a.glyph)
        pts_w = [ps.apply(M, p) for _, ps_ in want for p in ps_]
        pts_g = b.points()
        if len(pts_w) != len(pts_g):
            return {"segments differ": a.glyph}
        for p, q in zip(pts_w, pts_g):
            worst = max(worst, abs(p[0] - q[0]), abs(p[1] - q[1]))
        if a.fill[0] != b.fill[0]:
            return {"fill kind": [a.fill[0], b.fill[0]]}
        if a.fill[0] == "solid":
            if not same_color(a.fill[1], b.fill[1]) or abs(a.fill[1][3] - b.opacity) > 2e-3:
                return {"solid": [a.fill[1], b.fill[1], b.opacity]}
        if len(a.groups) != len(b.groups) or any(abs(x - y) > 2e-3 for x, y in zip(a.groups, b.groups)):
            return {"groups": [a.groups, b.groups]}
        if a.fill[0] == "linear":
            g1 = tuple(ps.apply(Fm, p) for p in a.fill[1:4])
            for q in ((0.0, 0.0), (50.0, 0.0), (0.0, 50.0)):
                n1, d1 = ps.linear_t(*g1, q)
                n2, d2 = ps.linear_t(*b.fill[1:4], q)
                if abs(d1) > 1e-6 and abs(d2) > 1e-6 and abs(n1 / d1 - n2 / d2) > 1e-2:
                    return {"linear t": [n1 / d1, n2 / d2], "svg": etree.tostring(svg_root).decode()[:600]}
        if a.fill[0] == "radial":
            import math

            c0, r0, c1, r1, M1 = a.fill[1:6]
            d0, s0, d1, s1, M2 = b.fill[1:6]
            M1 = ps.mul(Fm, M1)
            det2 = M2[0] * M2[3] - M2[1] * M2[2]
            if abs(det2) > 1e-9:
                Mi = tuple(Affine2D(*[float(x) for x in M2]).inverse())
                N = ps.mul(Mi, tuple(float(x) for x in M1))
                k = math.hypot(N[0], N[1])
                errs = [abs(math.hypot(N[2], N[3]) - k), abs(N[0] * N[2] + N[1] * N[3]),
                        abs(ps.apply(N, c0)[0] - d0[0]), abs(ps.apply(N, c0)[1] - d0[1]), abs(ps.apply(N, c1)[0] - d1[0]), abs(ps.apply(N, c1)[1] - d1[1]),
                        abs(s0 - k * r0), abs(s1 - k * r1)]
                scale = max(1.0, k, abs(d0[0]), abs(d0[1]), abs(d1[0]), abs(d1[1]), abs(s1))
                # radii carry only their own 3-digit rounding (and k's): judged against the radii, not the coordinates
                rscale = max(1.0, abs(s0), abs(s1), k * abs(r0), k * abs(r1))
                if max(errs[:6]) > 2e-2 * scale or max(errs[6:]) > 5e-3 * rscale:
                    return {"radial mismatch": errs, "svg": etree.tostring(svg_root).decode()[:700]}
    if worst > 5e-2:
        return {"outline error": worst, "svg": etree.tostring(svg_root).decode()[:600]}
    return None


def job_c13(jc):
    jc.encode(C2S._colr_v1_glyph_to_svg, C2S._colr_v1_paint_to_svg, C2S._apply_transform, C2S._apply_gradient_ot_paint, C2S._gradient_paint, C2S._color,
              C2S.map_font_space_to_viewbox, C2S.glyph_region, C2S._draw_svg_path, SVGMOD._apply_gradient_paint, SVGMOD._define_linear_gradient,
              SVGMOD._define_radial_gradient, SVGMOD._map_gradient_coordinates, SVGMOD._apply_solid_paint, SVGMOD._apply_gradient_common_parts, P.Paint.from_ot)
    tmpl, vbn, npal = jc.params["template"], jc.params["viewbox"], jc.params["npal"]
    vb = VIEWBOXES[vbn]
    Fm = font_to_vbox_spec(vb, 1275)
    _validate_pathops(jc)
    validate_projection(jc)

    def body():
        root, layers, recs = TEMPLATES[tmpl]()
        font = mk_font(layers, [Obj(BaseGlyph="base", Paint=root)] + recs, npal)
        # public entry point: converts every base glyph, serialises and re-parses each document
        svgs = C2S.colr_to_svg(lambda g: vb, font)
        return font, {rec.BaseGlyph: (rec.Paint, svgs[rec.BaseGlyph].svg_root) for rec in font["COLR"].table.BaseGlyphList.BaseGlyphPaintRecord}

    with c13_shims():
        results = jc.explore(body, round_mode="identity", feas_timeout_ms=1500, catch=(ValueError, NotImplementedError, AssertionError, ZeroDivisionError))
    from harness.C05 import sym_names

    for r in results:
        inp = {"template": tmpl, "viewbox": vbn, "npal": npal}
        inp.update({n: core.SymNum(z3.Real(n)) for n in sym_names(r)})
        if r.exc is not None:
            if isinstance(r.exc, ValueError) and "Expected uniform scale" in str(r.exc):
                jc.reach(r, "rejected-nonuniform")
                continue
            jc.no_exception(r, inp, replay_c13, f"C13:{tmpl}:raises")
            continue
        font, per_glyph = r.value
        jc.reach(r, "ok")
        for gname, (root, svg_root) in per_glyph.items():
            for label, (prop, extra) in compare(r, font, root, svg_root, Fm).items():
                jc.prove(r, prop, label, inp, replay_c13, key=f"C13:{tmpl}", extra=extra, timeout_ms=60000)
        if len(jc.samples) < 1:
            from lxml import etree

            jc.sample(template=tmpl, svg=etree.tostring(per_glyph["base"][1]).decode()[:500])
    jc.expect_reached("ok")


def _validate_pathops(jc):
    import pathops

    pts = [(150.0, -60.0), (200.0, 100.0), (260.0, 300.0), (0.0, 250.0)]
    a = [tuple(map(tuple, s)) for s in pathops.decompose_quadratic_segment(tuple(pts))]
    b = [tuple(map(tuple, s)) for s in decomposeQuadraticSegment(pts)]
    if a != b:
        raise core.HarnessError("pure-Python quadratic decomposition differs from skia-pathops")
    jc.concrete_validations += 1


# ------------------------------------------------------------------ COLRv0


def job_colr0(jc):
    jc.encode(C2S._colr_v0_glyph_to_svg)
    vbn = jc.params["viewbox"]
    npal = jc.params["npal"]
    vb = VIEWBOXES[vbn]
    Fm = font_to_vbox_spec(vb, 1275)
    f = Font()
    f["CPAL"] = Obj(palettes=[PALETTE] + ([PALETTE2] if npal > 1 else []))
    f["COLR"] = Obj(version=0, ColorLayers={"base": [Obj(name="sq", colorID=1), Obj(name="tri", colorID=2), Obj(name="comp", colorID=0xFFFF), Obj(name="cub", colorID=0)]})
    f["hmtx"] = {"base": (1275, 0)}
    f["OS/2"] = Obj(sTypoAscender=ASC, sTypoDescender=DESC)
    with c13_shims(stub_radial=False):
        svg_root = C2S._colr_v0_glyph_to_svg(f, GLYPHS, lambda g: vb, "base")
    sl = svs.denote_svg(svg_root, {})
    want = f["COLR"].ColorLayers["base"]
    ok = len(sl) == len(want)
    detail = {}
    if ok:
        for w, b in zip(want, sl):
            pts = [ps.apply(Fm, p) for _, pp in glyph_points(w.name) for p in pp]
            got = b.points()
            col = ots._color(f, w.colorID, 1.0)
            if len(pts) != len(got) or any(abs(float(p[0]) - float(q[0])) > 1e-9 or abs(float(p[1]) - float(q[1])) > 1e-9 for p, q in zip(pts, got)):
                ok, detail = False, {"layer": w.name, "outline": "mismatch"}
            if not same_color(col, b.fill[1]) or abs(float(col[3]) - float(b.opacity)) > 2e-3:
                ok, detail = False, {"layer": w.name, "colour": [col, b.fill[1], b.opacity]}
    jc.paths += 1
    jc.q["total"] += 1
    jc.q["unsat" if ok else "sat"] += 1
    jc.concrete_validations += 1
    if not ok:
        jc.violation("C13:colr0", "COLRv0 layers -> SVG paths", {"viewbox": vbn, "npal": npal}, detail or {"count": [len(sl), len(want)]})


def jobs(tier):
    js = []
    names = QUICK if tier == "quick" else list(TEMPLATES)
    for t in names:
        for vbn in (("150off",) if tier == "quick" else VIEWBOXES):
            for npal in ((1,) if tier == "quick" and "layers(" not in t and t != "glyph>linear" else (1, 2)):
                js.append(Job(f"colr1[{t},{vbn},pal{npal}]", job_c13, template=t, viewbox=vbn, npal=npal))
    for vbn in VIEWBOXES:
        for npal in (1, 2):
            js.append(Job(f"colr0[{vbn},pal{npal}]", job_colr0, viewbox=vbn, npal=npal))
    from harness import C13_unsupported

    js += C13_unsupported.jobs(tier)
    from harness import color_strings

    js += color_strings.jobs(tier)  # solid / stop colours are written by Color.to_string
    return js


def main(tier):
    return run_property(
        "C13",
        jobs(tier),
        tier=tier,
        explanation="Bounded symbolic execution of nanoemoji's COLR->SVG converter on fontTools ot.Paint graphs whose numeric fields are symbolic; the emitted lxml tree (numbers as tokens) is interpreted by an SVG-semantics oracle and compared leaf for leaf with a COLR-semantics oracle.",
        bounds={"templates": f"{len(TEMPLATES)} paint-graph templates (quick: {len(QUICK)}), depth <= 4", "fields": "coordinates in [-2000,2000], matrix entries [-4,4], scales [-2,2], angles symbolic (cos/sin/tan uninterpreted + identities)",
                "view boxes": "three concrete boxes with power-of-two font->viewBox scales (all floats exact)", "palettes": "1 or 2 CPAL palettes, indices by template", "rounding": "3-digit output rounding shimmed to identity (algebraic stage)"},
        outside=["XML serialisation / SVG.fromstring round trip, round_floats", "3-digit rounding of emitted numbers (bounded separately: <= 0.0005 per number)", "symbolic view box (division by symbolic height)", "variable paints, sweep gradients"],
        assumptions=["picosvg decompose_scale/decompose_translation/inverse replaced by contract stubs on symbolic affines", "pathops.decompose_quadratic_segment replaced by fontTools' pure-Python equivalent (checked concretely)"],
        shims=["std shims", "nanoemoji.svg_path.pathops", "SymNum.__hash__ constant (gradient reuse dict)"],
        stubs=["TTFont -> dict with CPAL/COLR/hmtx/OS2 attribute bags", "glyph set -> concrete outlines incl. one composite and one quadratic glyph"],
        budget_s=900 if tier == "quick" else 3400,
    )
