"""C10: what the driver resolves is exactly what the build steps see (file round trips).

K1  config.write -> (toml stub: identity on the value dict, drops None) -> config.load with
    _pop_flag and a FLAGS stub: every FontConfig field symbolic; flag > file > default.
K2  glyph names distinct and fea-legal: shared with C04 (string kernels).
K3  parts.ReusableParts.to_json / from_json with json stubbed to identity on the dict.
"""
from __future__ import annotations

import copy
from fractions import Fraction
from pathlib import Path

import z3

from symx import core, shims
from symx.runner import Job, run_property

from nanoemoji import config as CFG
from nanoemoji.config import FontConfig, Axis, AxisPosition, MasterConfig
from nanoemoji import parts as PARTS
from picosvg.svg_transform import Affine2D
from picosvg.geometric_types import Rect

INT_FIELDS = ["upem", "width", "ascender", "descender", "linegap", "version_major", "version_minor", "bitmap_resolution"]
BOOL_FIELDS = ["ignore_reuse_error", "keep_glyph_names", "clip_to_viewbox", "pretty_print", "use_zopflipng", "use_pngquant"]
STR_FIELDS = {"family": "Fam File", "output_file": "Out File.ttf", "color_format": "glyf_colr_1", "fea_file": "feat file.fea",
              "glyphmap_generator": "my.gen", "pngquant_flags": "--speed 3"}
STR_FLAGS = {"family": "Fam Flag", "output_file": "OutFlag.otf", "color_format": "cff_colr_0", "fea_file": "flag.fea",
             "glyphmap_generator": "flag.gen", "pngquant_flags": "--quality 1"}
FLAG_NAMES = ["upem", "width", "ascender", "descender", "linegap", "transform", "version_major", "version_minor", "family", "output_file",
              "color_format", "keep_glyph_names", "clip_to_viewbox", "reuse_tolerance", "ignore_reuse_error", "clipbox_quantization",
              "pretty_print", "fea_file", "glyphmap_generator", "bitmap_resolution", "use_zopflipng", "use_pngquant", "pngquant_flags"]


class TomlStub:
    """toml stand-in: dumps/loads are the identity on the value dict, except that None values
    are dropped (as toml does) -- checked against the real toml once per run."""

    def __init__(self):
        self.store = {}

    @staticmethod
    def _strip(d):
        if isinstance(d, dict):
            return {k: TomlStub._strip(v) for k, v in d.items() if v is not None}
        if isinstance(d, (list, tuple)):
            return [TomlStub._strip(v) for v in d]
        return d

    def dumps(self, d):
        key = f"<toml {len(self.store)}>"
        self.store[key] = self._strip(d)
        return key

    def load(self, path):
        return copy.deepcopy(self.store[path.text])

    def loads(self, s):
        return copy.deepcopy(self.store[s])


class StubPath:
    def __init__(self, name="/cfg/dir/config.toml"):
        self.name = name
        self.text = None
        self.parent = Path("/cfg/dir")

    def write_text(self, t):
        self.text = t


class Flags:
    def __init__(self, **vals):
        for n in FLAG_NAMES:
            setattr(self, n, None)
        for k, v in vals.items():
            setattr(self, k, v)


def validate_toml_contract(jc):
    import toml

    d = {"a": 1, "b": 2.5, "c": True, "d": "x y", "n": None, "t": {"k": {"p": 1.0, "q": [str(Path("/a/b c.svg"))]}}}
    back = toml.loads(toml.dumps(d))
    if back != TomlStub._strip(d):
        raise core.HarnessError(f"real toml does not satisfy the stub's contract: {back}")
    jc.concrete_validations += 1


def sym_config(sfx, with_masters):
    kw = {}
    for f in INT_FIELDS:
        kw[f] = core.integer(f"{f}{sfx}", -5000, 5000)
    for f in BOOL_FIELDS:
        kw[f] = core.boolean(f"{f}{sfx}")
    kw.update(STR_FIELDS)
    kw["reuse_tolerance"] = core.real(f"reuse_tolerance{sfx}", -1, 10)
    kw["transform"] = Affine2D(*[core.real(f"tr{i}{sfx}", -100, 100) for i in range(6)])
    kw["clipbox_quantization"] = None if core.choice(2) == 0 else core.integer(f"clipbox_quantization{sfx}", -10, 500)
    axes, masters = (), ()
    if with_masters == 1:
        masters = (MasterConfig("regular", "Regular", "Out File.regular.ufo", (), (Path("/abs/src/a.svg"), Path("/abs/src/b c.svg"))),)
    elif with_masters == 2:
        axes = (Axis("wght", "Weight", core.real(f"axdef{sfx}", 1, 1000)), Axis("wdth", "Width", 100.0))
        p1 = core.real(f"pos1{sfx}", 1, 1000)
        masters = (
            MasterConfig("light", "Light", "Out File.light.ufo", (AxisPosition("wdth", 100.0), AxisPosition("wght", p1)), (Path("/abs/l/a.svg"), Path("/abs/l/b.svg"))),
            MasterConfig("bold", "Bold", "Out File.bold.ufo", (AxisPosition("wdth", 100.0), AxisPosition("wght", 700.0)), (Path("/abs/b/a.svg"), Path("/abs/b/b.svg"))),
        )
    kw["axes"], kw["masters"] = axes, masters
    kw["source_names"] = tuple(sorted({p.name for m in masters for p in m.sources}))
    return FontConfig(**kw)


def sym_flags(which):
    vals = {}
    for n in which:
        if n in INT_FIELDS or n == "clipbox_quantization":
            vals[n] = core.integer(f"flag_{n}", -5000, 5000)
        elif n in BOOL_FIELDS:
            vals[n] = core.boolean(f"flag_{n}")
        elif n in STR_FLAGS:
            vals[n] = STR_FLAGS[n]
        elif n == "reuse_tolerance":
            vals[n] = core.real("flag_reuse_tolerance", -1, 10)
        elif n == "transform":
            vals[n] = "matrix(2 0 0 2 10 20)"
    return Flags(**vals)


def field_eq(name, got, want):
    """z3 equality for one FontConfig field (python bool for concrete fields)."""
    if name == "transform":
        return z3.And(*[core.as_term(a) == core.as_term(b) for a, b in zip(tuple(got), tuple(want))])
    if isinstance(got, core.SymBool) or isinstance(want, core.SymBool):
        g = got.t if isinstance(got, core.SymBool) else z3.BoolVal(bool(got))
        w = want.t if isinstance(want, core.SymBool) else z3.BoolVal(bool(want))
        if isinstance(got, core.SymNum) or isinstance(want, core.SymNum):
            return z3.BoolVal(False)
        return g == w
    if isinstance(got, core.SymNum) or isinstance(want, core.SymNum):
        if got is None or want is None or isinstance(got, (str, bool)) or isinstance(want, (str, bool)):
            return z3.BoolVal(False)
        return core.as_term(got) == core.as_term(want)
    if name in ("axes", "masters"):
        return masters_eq(got, want)
    return z3.BoolVal(type(got) == type(want) and got == want if not isinstance(got, (int, float)) else got == want)


def masters_eq(got, want):
    if len(got) != len(want):
        return z3.BoolVal(False)
    conj = []
    for a, b in zip(got, want):
        if type(a) is not type(b) or len(a) != len(b):
            return z3.BoolVal(False)
        for x, y in zip(a, b):
            if isinstance(x, tuple) and x and isinstance(x[0], AxisPosition):
                if len(x) != len(y):
                    return z3.BoolVal(False)
                for p, q in zip(x, y):
                    conj.append(z3.BoolVal(p.axisTag == q.axisTag))
                    conj.append(core.as_term(p.position) == core.as_term(q.position))
            elif isinstance(x, (core.SymNum,)) or isinstance(y, core.SymNum):
                conj.append(core.as_term(x) == core.as_term(y))
            else:
                conj.append(z3.BoolVal(x == y))
    return z3.And(*conj) if conj else z3.BoolVal(True)


def expected_validate_error(cfg):
    """The documented sign constraints, as a z3 term (True = must raise)."""
    neg = [core.as_term(getattr(cfg, a)) < 0 for a in ("upem", "width", "ascender", "linegap", "version_major", "version_minor")]
    neg.append(core.as_term(cfg.descender) > 0)
    if cfg.clipbox_quantization is not None:
        neg.append(core.as_term(cfg.clipbox_quantization) < 1)
    return z3.Or(*neg)


def replay_config(inp):
    """Real toml, real files, real absl flags object replaced by a plain stub."""
    import tempfile, os, toml

    sfx = ""
    kw = {}
    for f in INT_FIELDS:
        kw[f] = int(inp.get(f, getattr(FontConfig(), f)))
    for f in BOOL_FIELDS:
        kw[f] = bool(inp.get(f, getattr(FontConfig(), f)))
    kw.update(STR_FIELDS)
    kw["reuse_tolerance"] = float(inp.get("reuse_tolerance", 0.1))
    kw["transform"] = Affine2D(*[float(inp.get(f"tr{i}", v)) for i, v in enumerate((1, 0, 0, 1, 0, 0))])
    kw["clipbox_quantization"] = int(inp["clipbox_quantization"]) if "clipbox_quantization" in inp else None
    d = tempfile.mkdtemp(prefix="c10_")
    try:
        src = Path(d) / "a.svg"
        src.write_text("<svg/>")
        kw["masters"] = (MasterConfig("regular", "Regular", "Out File.regular.ufo", (), (src,)),)
        kw["source_names"] = ("a.svg",)
        if inp.get("masters") == 2:  # the two-master, two-axis structure of sym_config, on real files
            for sub in ("l", "b"):
                (Path(d) / sub).mkdir()
                for n in ("a.svg", "b.svg"):
                    (Path(d) / sub / n).write_text("<svg/>")
            kw["axes"] = (Axis("wght", "Weight", float(inp.get("axdef", 400.0))), Axis("wdth", "Width", 100.0))
            kw["masters"] = (
                MasterConfig("light", "Light", "Out File.light.ufo", (AxisPosition("wdth", 100.0), AxisPosition("wght", float(inp.get("pos1", 300.0)))), (Path(d) / "l" / "a.svg", Path(d) / "l" / "b.svg")),
                MasterConfig("bold", "Bold", "Out File.bold.ufo", (AxisPosition("wdth", 100.0), AxisPosition("wght", 700.0)), (Path(d) / "b" / "a.svg", Path(d) / "b" / "b.svg")),
            )
            kw["source_names"] = ("a.svg", "b.svg")
        cfg = FontConfig(**kw)
        flags = Flags()
        for n in inp.get("flags", []):
            v = inp.get(f"flag_{n}")
            if n in STR_FLAGS:
                v = STR_FLAGS[n]
            elif n == "transform":
                v = "matrix(2 0 0 2 10 20)"
            elif n in BOOL_FIELDS:
                v = bool(v)
            elif n == "reuse_tolerance":
                v = float(v)
            else:
                v = int(v)
            setattr(flags, n, v)
        dest = Path(d) / "cfg.toml"
        saved = CFG.FLAGS
        CFG.FLAGS = flags
        try:
            CFG.write(dest, cfg)
            try:
                got = CFG.load(dest)
                err = None
            except ValueError as e:
                got, err = None, e
        finally:
            CFG.FLAGS = saved
        bad = {}
        want = {}
        for name in FontConfig._fields:
            fv = getattr(flags, name, None)
            w = getattr(cfg, name)
            if fv is not None:
                w = Affine2D.fromstring(fv) if name == "transform" else fv
            want[name] = w
        of = flags.output_file if flags.output_file is not None else cfg.output_file
        want["masters"] = tuple(m._replace(output_ufo=".".join((Path(of).stem, m.name, "ufo"))) for m in want["masters"])
        must_raise = any(want[a] < 0 for a in ("upem", "width", "ascender", "linegap", "version_major", "version_minor")) or want["descender"] > 0 or (
            want["clipbox_quantization"] is not None and want["clipbox_quantization"] < 1)
        if err is not None:
            return None if must_raise else {"raised": repr(err)}
        if must_raise:
            return {"accepted invalid config": {k: want[k] for k in ("upem", "width", "ascender", "descender", "linegap", "clipbox_quantization")}}
        for name in FontConfig._fields:
            g, w = getattr(got, name), want[name]
            if name == "transform":
                if any(abs(a - b) > 1e-9 for a, b in zip(g, w)):
                    bad[name] = [list(g), list(w)]
            elif isinstance(w, float):
                if abs(g - w) > 1e-12:
                    bad[name] = [g, w]
            elif g != w:
                bad[name] = [repr(g), repr(w)]
        return {"fields that did not survive": bad, "flags": inp.get("flags", [])} if bad else None
    finally:
        import shutil

        shutil.rmtree(d, ignore_errors=True)


def job_config(jc):
    jc.encode(CFG.write, CFG.load, CFG._pop_flag, CFG._resolve_config, CFG._resolve_src, FontConfig.validate)
    validate_toml_contract(jc)
    flags_on = jc.params["flags"]
    with_masters = jc.params["masters"]
    state = {}

    def body():
        toml = TomlStub()
        cfg = sym_config("", with_masters)
        flags = sym_flags(flags_on)
        dest = StubPath()
        state["cfg"], state["flags"] = cfg, flags
        with shims.installed([shims.Shim("nanoemoji.config", "toml", toml, "toml stub"), shims.Shim("nanoemoji.config", "FLAGS", flags, "absl FLAGS stub")]):
            CFG.write(dest, cfg)
            got = CFG.load(dest)
        return cfg, flags, got

    sl = shims.numeric_shims("nanoemoji.config") + [shims.Shim("picosvg.svg_transform", "float", core.sym_float, "float(token) in parse_svg_transform")]
    with shims.installed(sl + shims.std_shims()[4:8]):
        results = jc.explore(body, catch=(ValueError,), max_paths=2500)
    names = ["reuse_tolerance"] + INT_FIELDS + BOOL_FIELDS + [f"tr{i}" for i in range(6)] + ["clipbox_quantization"]
    for r in results:
        cfg, flags = state["cfg"], state["flags"]
        inp = {"flags": list(flags_on), "masters": with_masters}
        for n in INT_FIELDS + ["clipbox_quantization"]:
            inp[n] = core.SymNum(z3.Int(n))
            inp[f"flag_{n}"] = core.SymNum(z3.Int(f"flag_{n}"))
        for n in BOOL_FIELDS:
            inp[n] = core.SymBool(z3.Bool(n))
            inp[f"flag_{n}"] = core.SymBool(z3.Bool(f"flag_{n}"))
        inp["reuse_tolerance"] = core.SymNum(z3.Real("reuse_tolerance"))
        inp["flag_reuse_tolerance"] = core.SymNum(z3.Real("flag_reuse_tolerance"))
        for i in range(6):
            inp[f"tr{i}"] = core.SymNum(z3.Real(f"tr{i}"))
        if with_masters == 2:
            inp["pos1"], inp["axdef"] = core.SymNum(z3.Real("pos1")), core.SymNum(z3.Real("axdef"))
        if r.exc is not None:
            # rebuild the expected (flag-resolved) values by name and require the error to be justified
            jc.reach(r, "ValueError")
            want = _resolved_by_name(flags_on, r)
            jc.prove(r, expected_validate_error(want), "load rejects only configs violating the documented sign constraints", inp, replay_config, key="C10:config:spurious-reject")
            continue
        cfg, flags, got = r.value
        jc.reach(r, "ok")
        conj, labels = [], []
        out_file = flags.output_file if flags.output_file is not None else cfg.output_file
        for name in FontConfig._fields:
            fv = getattr(flags, name, None)
            want = getattr(cfg, name)
            if fv is not None:
                want = Affine2D(2, 0, 0, 2, 10, 20) if name == "transform" else fv
            if name == "masters":
                # output_ufo is derived at load time from the resolved output file
                want = tuple(m._replace(output_ufo=".".join((Path(out_file).stem, m.name, "ufo"))) for m in want)
            conj.append(field_eq(name, getattr(got, name), want))
            labels.append(name)
        for name, c in zip(labels, conj):
            jc.prove(r, c, f"field '{name}' survives write->load (flag > file > default)", inp, replay_config, key=f"C10:config:{name}")
        want_cfg = got
        jc.prove(r, z3.Not(expected_validate_error(got)), "accepted config satisfies the documented sign constraints", inp, replay_config, key="C10:config:accepted-invalid")
    jc.expect_reached("ok", "ValueError")


def _resolved_by_name(flags_on, r):
    """FontConfig-like object of z3-named values after flag resolution (for exception paths)."""
    kw = {}
    for f in INT_FIELDS:
        kw[f] = core.SymNum(z3.Int(f"flag_{f}" if f in flags_on else f))
    # clipbox: structure (None or int) is decided by an explicit choice: recover from decisions
    cq = None
    if "clipbox_quantization" in flags_on:
        cq = core.SymNum(z3.Int("flag_clipbox_quantization"))
    elif r.decisions and r.decisions[0] == 1:
        cq = core.SymNum(z3.Int("clipbox_quantization"))
    ns = type("NS", (), {})()
    for k, v in kw.items():
        setattr(ns, k, v)
    ns.clipbox_quantization = cq
    return ns


# ---------------------------------------------------------------- defaults


def job_defaults(jc):
    """An option that is not given (no flag, not in the file) is left at the FontConfig default."""
    jc.encode(CFG.load, CFG._pop_flag)
    toml = TomlStub()
    key = toml.dumps({"axis": {}, "master": {"regular": {"style_name": "Regular", "position": {}, "srcs": ["/abs/a.svg"]}}})
    dest = StubPath()
    dest.text = key
    with shims.installed([shims.Shim("nanoemoji.config", "toml", toml, "toml stub"), shims.Shim("nanoemoji.config", "FLAGS", Flags(), "absl FLAGS stub")]):
        got = CFG.load(dest)
    want = FontConfig()
    bad = {n: [repr(getattr(got, n)), repr(getattr(want, n))] for n in FontConfig._fields if n not in ("masters", "source_names", "axes") and getattr(got, n) != getattr(want, n)}
    jc.paths += 1
    jc.q["total"] += 1
    jc.concrete_validations += 1
    if bad:
        jc.q["sat"] += 1
        jc.violation("C10:config:defaults", "unset options keep documented defaults", {}, bad)
    else:
        jc.q["unsat"] += 1


# ---------------------------------------------------------------- parts JSON


class JsonStub:
    def __init__(self):
        self.store = {}

    def dumps(self, d, **k):
        key = f"<json {len(self.store)}>"
        self.store[key] = copy.deepcopy(d)
        return key

    def loads(self, s):
        return copy.deepcopy(self.store[s])


def replay_parts(inp):
    p = PARTS.ReusableParts(view_box=Rect(0, 0, int(inp["w"]), int(inp["h"])), reuse_tolerance=float(inp["tol"]))
    p.shape_sets = {"M0,0 L1,0 L1,1 Z": {"M0,0 L10,0 L10,10 Z", "M5,5 L6,5 L6,6 Z"}, "M0,0 L2,0 Z": {"M0,0 L2,0 Z"}}
    p._donor_cache = {"M0,0 L1,0 L1,1 Z": "M5,5 L6,5 L6,6 Z", "M0,0 L2,0 Z": None}
    q = PARTS.ReusableParts.from_json(p.to_json())
    bad = {}
    if q.version != p.version or tuple(q.view_box) != tuple(p.view_box) or q.reuse_tolerance != p.reuse_tolerance:
        bad["header"] = [repr(q.view_box), repr(p.view_box), q.reuse_tolerance, p.reuse_tolerance]
    if q.shape_sets != p.shape_sets or q._donor_cache != p._donor_cache:
        bad["shapes"] = [repr(q.shape_sets), repr(q._donor_cache)]
    return bad or None


def job_parts(jc):
    jc.encode(PARTS.ReusableParts.to_json, PARTS.ReusableParts.from_json)
    inp = {"w": core.SymNum(z3.Int("w")), "h": core.SymNum(z3.Int("h")), "tol": core.SymNum(z3.Real("tol"))}
    sets = {"M0,0 L1,0 L1,1 Z": {"M0,0 L10,0 L10,10 Z", "M5,5 L6,5 L6,6 Z"}, "M0,0 L2,0 Z": {"M0,0 L2,0 Z"}}
    donors = {"M0,0 L1,0 L1,1 Z": "M5,5 L6,5 L6,6 Z", "M0,0 L2,0 Z": None}

    def body():
        p = PARTS.ReusableParts(view_box=Rect(0, 0, core.integer("w", 1, 4096), core.integer("h", 1, 4096)), reuse_tolerance=core.real("tol", -1, 10))
        p.shape_sets = {k: set(v) for k, v in sets.items()}
        p._donor_cache = dict(donors)
        js = JsonStub()
        with shims.installed([shims.Shim("nanoemoji.parts", "json", js, "json stub: identity on the dict")]):
            q = PARTS.ReusableParts.from_json(p.to_json())
        return p, q

    with shims.installed(shims.numeric_shims("nanoemoji.parts")):
        results = jc.explore(body, catch=(ValueError, AssertionError))
    for r in results:
        if not jc.no_exception(r, inp, replay_parts, "C10:parts:raises"):
            continue
        p, q = r.value
        jc.reach(r, "ok")
        conj = [z3.BoolVal(q.version == p.version and q.shape_sets == p.shape_sets and q._donor_cache == p._donor_cache),
                core.as_term(q.reuse_tolerance) == core.as_term(p.reuse_tolerance)]
        conj += [core.as_term(a) == core.as_term(b) for a, b in zip(q.view_box, p.view_box)]
        jc.prove(r, z3.And(*conj), "parts file reloads to the same version, view box, tolerance, shape sets and donors (incl. None)", inp, replay_parts, key="C10:parts:roundtrip")
    jc.expect_reached("ok")


def jobs(tier):
    js = [Job("config[no flags,1 master]", job_config, flags=(), masters=1),
          Job("config[no flags,2 masters 2 axes]", job_config, flags=(), masters=2),
          Job("config[all flags]", job_config, flags=tuple(FLAG_NAMES), masters=1)]
    for n in FLAG_NAMES:
        js.append(Job(f"config[flag {n}]", job_config, flags=(n,), masters=1))
    js.append(Job("config[defaults]", job_defaults))
    js.append(Job("parts.json", job_parts))
    # K2: glyph names derived from distinct sequences are distinct and fea-legal (kernel shared with C04)
    from harness import C04
    import itertools

    cls = list(C04.CLASSES)
    pairs = [(1, 1), (1, 2)] if tier == "quick" else [(1, 1), (1, 2), (2, 2), (1, 3)]
    for m, n in pairs:
        for ca in itertools.product(cls, repeat=m):
            for cb in itertools.product(cls, repeat=n):
                if C04._lens_can_match(ca, cb):
                    js.append(Job(f"names[{'.'.join(ca)}|{'.'.join(cb)}]", C04.job_names, A=ca, B=cb))
    for n, c in ((9, "x6"), (11, "x5"), (14, "x5")):
        js.append(Job(f"long_names[{n}x{c}]", C04.job_long_names, A=(c,) * n, B=(c,) * n))
    # K3: file name -> code points (pattern language) and the glyph map's CSV round trip (csv modelled, names symbolic)
    from harness import C04_filename, C10_csv

    js += C04_filename.jobs(tier) + C10_csv.jobs(tier)
    return js


def main(tier):
    return run_property(
        "C10",
        jobs(tier),
        tier=tier,
        explanation="Bounded symbolic execution of config.write -> config.load (with _pop_flag and the FLAGS object) with every FontConfig field symbolic, iterating FontConfig._fields of the live class, and of the parts JSON round trip; toml/json replaced by identity-on-dict stubs whose contract is checked against the real libraries. Glyph-name distinctness/legality is decided in C04 (same kernel).",
        bounds={"ints": "[-5000,5000]", "reuse_tolerance": "[-1,10]", "transform": "six reals in [-100,100] through Affine2D.tostring/fromstring with tokens", "axes/masters": "1 master, or 2 masters x 2 axes with symbolic positions",
                "flags": "none / each single flag / all flags", "strings": "distinct concrete constants (incl. spaces)"},
        outside=["the C csv module itself (replaced by a pure-Python port of its writer/reader state machines, validated against it on all strings of length <= 4 over the characters they distinguish)", "file names containing control characters (C0/C1: no line-oriented file can carry a line break inside a name)", "the regex engine's matching order inside codepoints.from_filename (the pattern's language is decided; how the C engine cuts a name is sampled)", "real toml/json text formatting", "shlex/ninja quoting"],
        assumptions=["toml round-trips int/float/bool/str/nested tables and drops None (checked concretely once per run)", "json stub is the identity on the dict"],
        shims=["nanoemoji.config int/float", "picosvg.svg_transform.float (token strings)", "nanoemoji.parts int/float"],
        stubs=["csv -> CsvModel, StringIO -> StubIO, Path -> StubPath (instrumented glyphmap module)", "toml -> TomlStub", "FLAGS -> attribute bag", "Path -> StubPath(write_text/parent)", "json -> JsonStub"],
        budget_s=600 if tier == "quick" else 2400,
    )
