"""C13 tail clause: paint formats outside the supported set raise an error or log a warning
(structure by explicit enumeration of formats/modes; values irrelevant)."""
from __future__ import annotations

from fontTools.ttLib.tables import otTables as ot

from symx import core, shims
from symx.runner import Job


def job_unsupported(jc):
    from harness import C13
    from nanoemoji import colr_to_svg as C2S

    jc.encode(C2S._colr_v1_paint_to_svg)
    fmt, mode = jc.params["fmt"], jc.params.get("mode")
    warnings = []

    class Rec:
        def warning(self, *a, **k):
            warnings.append(a)

        def __getattr__(self, n):
            return lambda *a, **k: None

    def build():
        child = C13.glyph("sq", C13.solid(1, alpha=1.0))
        if fmt == 32:
            p = C13._p(32, CompositeMode=mode, SourcePaint=child, BackdropPaint=C13.glyph("tri", C13.solid(2, alpha=1.0)))
        elif fmt in (8, 9):  # sweep gradients
            p = C13.glyph("sq", C13._p(fmt, ColorLine=None, centerX=0, centerY=0, startAngle=0, endAngle=90))
        else:  # variable variants of supported paints
            p = C13._p(fmt, Paint=child, dx=1, dy=1, scaleX=1, scaleY=1, scale=1, angle=0, centerX=0, centerY=0, xSkewAngle=0, ySkewAngle=0, VarIndexBase=0)
        return p

    p = build()
    font = C13.mk_font([], [])
    rec = C13.Obj(BaseGlyph="base", Paint=p)
    raised = None
    with shims.installed([shims.Shim("nanoemoji.colr_to_svg", "logging", Rec(), "recorder for absl logging")]):
        try:
            C2S._colr_v1_glyph_to_svg(font, C13.GLYPHS, lambda g: C13.VIEWBOXES["150off"], rec)
        except Exception as e:
            raised = e
    jc.paths += 1
    jc.q["total"] += 1
    jc.concrete_validations += 1
    if raised is None and not warnings:
        jc.q["sat"] += 1
        jc.violation(f"C13:unsupported:{fmt}:{mode}", "unsupported paint raises or warns", {"format": fmt, "mode": mode}, {"silently converted": True})
    else:
        jc.q["unsat"] += 1
        jc.sample(format=fmt, mode=mode, outcome=repr(raised) if raised else "warning")


def jobs(tier):
    js = []
    for fmt in (3, 5, 7, 8, 9, 13, 15, 17, 19, 21, 23, 25, 27, 29, 31):
        js.append(Job(f"unsupported[format {fmt}]", job_unsupported, fmt=fmt))
    for mode in (0, 1, 3, 4, 6, 11, 23) if tier == "quick" else range(0, 28):
        if mode == 5:
            continue
        js.append(Job(f"unsupported[composite mode {mode}]", job_unsupported, fmt=32, mode=mode))
    return js
