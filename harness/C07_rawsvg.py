"""C07: untouched-SVG document records (svg._rawsvg_docs) -- sorted by start glyph, disjoint, one per glyph.

The glyph ids of the colour glyphs are symbolic and pairwise distinct: write_font assigns them in input order
EXCEPT for inputs whose glyph name the UFO already has (.notdef, .space, blank code point glyphs), which keep
their early ids wherever they stand in the input list.  A witness is replayed through the public entry
(write_font._generate_color_font, untouchedsvg, save + reload) with a `.notdef` input at the position the
witness gives the smallest id.
"""
from __future__ import annotations

import io

import z3
from lxml import etree

from symx import core, shims
from symx.runner import Job

from nanoemoji import svg as SVGMOD
from nanoemoji import write_font as WF
from nanoemoji.config import FontConfig
from picosvg.svg import SVG
from picosvg.svg_transform import Affine2D

SRC = '<svg xmlns="http://www.w3.org/2000/svg" viewBox="0 0 10 10"><path d="M1,1 L9,1 L9,{k} Z" fill="blue"/></svg>'


def replay_rawsvg_order(inp):
    from fontTools.ttLib import TTFont

    gids = [int(inp[f"gid{i}"]) for i in range(inp["n"])]
    # realise the witness order through the public entry: the input with the smallest id is `.notdef`
    # (the UFO already has that glyph, so it keeps id 0 wherever it stands); the others get ids in input order
    lo = gids.index(min(gids))
    names = [".notdef" if i == lo else "ABCDEFGH"[i] for i in range(len(gids))]
    cfg = FontConfig()._replace(color_format="untouchedsvg", output_file="o.ttf", fea_file="", keep_glyph_names=True)
    inputs = [WF.InputGlyph(f"{i}.svg", None, () if n == ".notdef" else (0x41 + i,), n, SVG.fromstring(SRC.format(k=3 + i)), None) for i, n in enumerate(names)]
    try:
        _, ttfont = WF._generate_color_font(cfg, inputs)
        b = io.BytesIO()
        ttfont.save(b)
        b.seek(0)
        font = TTFont(b)
        recs = [(d.startGlyphID, d.endGlyphID) if hasattr(d, "startGlyphID") else tuple(d[1:3]) for d in font["SVG "].docList]
    except Exception as e:
        return {"inputs": names, "raised": repr(e)}
    if any(a[1] >= b[0] for a, b in zip(recs, recs[1:])):
        return {"input glyph names in order": names, "SVG document records (start, end) as written": recs, "glyph order": font.getGlyphOrder(),
                "problem": "SVG document records are not sorted by start glyph id"}
    return None


def job_rawsvg_order(jc):
    from nanoemoji.color_glyph import ColorGlyph

    jc.encode(SVGMOD._rawsvg_docs, SVGMOD.make_svg_table)
    n = jc.params["n"]
    inp = {"n": n}
    for i in range(n):
        inp[f"gid{i}"] = core.SymNum(z3.Int(f"gid{i}"))

    def body():
        gids = [core.integer(f"gid{i}", 0, 60000) for i in range(n)]
        if n > 1:
            core.assume(core.SymBool(z3.Distinct(*[g.t for g in gids])))
        ufo = type("U", (), {"info": type("I", (), {"ascender": 950, "descender": -250, "familyName": "f"})(), "__getitem__": lambda self, k: type("G", (), {"width": 1200})()})()
        cgs = [ColorGlyph(ufo, f"{i}.svg", "", f"g{i}", gids[i], (65 + i,), None, SVG.fromstring(SRC.format(k=3 + i)), Affine2D.identity(), None) for i in range(n)]
        cfg = type("Cfg", (), {"pretty_print": False})()
        font = {}
        SVGMOD.make_svg_table(cfg, _Font(font), cgs, picosvg=False)
        return gids, font["SVG "].docList

    with shims.installed(shims.std_shims() + shims.numeric_shims("nanoemoji.svg", "nanoemoji.color_glyph")):
        results = jc.explore(body, round_mode="identity", catch=(ValueError, AssertionError), max_paths=2000)
    for r in results:
        if not jc.no_exception(r, inp, replay_rawsvg_order, "C07:rawsvg:records:raises"):
            continue
        gids, docs = r.value
        jc.reach(r, "ok")
        conj = [z3.BoolVal(len(docs) == n)]
        for a, b in zip(docs, docs[1:]):
            conj.append(core.as_term(a[2]) < core.as_term(b[1]))  # sorted by start glyph and disjoint
        for d in docs:
            conj.append(core.as_term(d[1]) == core.as_term(d[2]))
        # every glyph id has exactly one record, and that document carries exactly its glyph<ID> element
        for g in gids:
            conj.append(z3.Or(*[core.as_term(d[1]) == g.t for d in docs]) if docs else z3.BoolVal(False))
        jc.prove(r, z3.And(*conj), "untouched SVG: one document record per glyph, records sorted by start glyph id with disjoint ranges", inp, replay_rawsvg_order, key="C07:rawsvg:records")
    jc.expect_reached("ok")


class _Font:
    """TTFont stand-in: make_svg_table only assigns the new table"""

    def __init__(self, store):
        self.store = store

    def __setitem__(self, k, v):
        self.store[k] = v

    def __getitem__(self, k):
        return self.store[k]


def jobs(tier):
    return [Job(f"rawsvg_records[n={n}]", job_rawsvg_order, n=n) for n in ((1, 2, 3) if tier == "quick" else (1, 2, 3, 4))]
