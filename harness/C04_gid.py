"""C04/K3 (shared with C17): glyph-id bookkeeping of write_font._generate_color_font.

The real function runs up to the colour generator with: _ufo -> recorder ufo, ColorGlyph.create
-> recorder, output '.ufo' (no compile). Inputs carry SYMBOLIC code points and the glyph
names the real (instrumented) glyph_name derives from them, so "same name?" is decided by
the solver, not enumerated.
"""
from __future__ import annotations

import z3

from symx import core, shims, strings
from symx.strings import SymStr
from symx.runner import Job

from nanoemoji import write_font as WF
from nanoemoji.config import FontConfig


class RecGlyph:
    def __init__(self, name):
        self.name = name
        self.unicode = None
        self.width = 0


class RecUfo:
    def __init__(self):
        self._order = [".notdef", ".space"]
        self.glyphs = {".notdef": RecGlyph(".notdef"), ".space": RecGlyph(".space")}
        self.extra = []
        self.info = type("I", (), {"familyName": "F", "ascender": 950, "descender": -250})()
        self.features = type("Fe", (), {"text": ""})()
        self.lib = {}

    @property
    def glyphOrder(self):
        return list(self._order)

    @glyphOrder.setter
    def glyphOrder(self, v):
        self._order = list(v)

    def newGlyph(self, name):
        g = RecGlyph(name)
        self.extra.append(g)
        return g


class RecColorGlyph:
    created = []

    def __init__(self, gid, name, cps):
        self.glyph_id, self.ufo_glyph_name, self.codepoints = gid, name, cps

    @staticmethod
    def create(config, ufo, svg_file, gid, name, cps, svg, bitmap_file="", bitmap=None):
        cg = RecColorGlyph(gid, name, cps)
        RecColorGlyph.created.append(cg)
        return cg


def _run(seqs, names):
    cfg = FontConfig()._replace(color_format="untouchedsvg", output_file="out.ufo", fea_file="")
    inputs = [WF.InputGlyph(None, None, tuple(s), n, None, None) for s, n in zip(seqs, names)]
    RecColorGlyph.created = []
    ufo, ttfont = WF._generate_color_font(cfg, inputs)
    return ufo, list(RecColorGlyph.created)


def replay_gid(inp):
    """Real pipeline pieces, concretely: two inputs that resolve to the same glyph name or
    code point sequence must stop the build; otherwise gids are positions in the glyph order."""
    from nanoemoji import glyph as GLYPH
    import ufoLib2

    seqs = [tuple(int(c) for c in s) for s in inp["seqs"]]
    names = [GLYPH.glyph_name(s) for s in seqs]
    cfg = FontConfig()._replace(color_format="untouchedsvg", output_file="out.ufo", fea_file="")
    from picosvg.geometric_types import Rect

    svg = type("S", (), {"view_box": lambda self: Rect(0, 0, 10, 10)})()
    inputs = [WF.InputGlyph(None, None, s, n, svg, None) for s, n in zip(seqs, names)]
    dup = len(set(names)) != len(names)
    try:
        ufo, _ = WF._generate_color_font(cfg, inputs)
    except Exception as e:
        return None if dup else {"seqs": [[hex(c) for c in s] for s in seqs], "raised": repr(e)}
    if dup:
        return {"seqs": [[hex(c) for c in s] for s in seqs], "glyph_names": names,
                "problem": "two inputs resolve to the same glyph name; the build did not stop and they were merged into one glyph",
                "glyphOrder": list(ufo.glyphOrder)}
    order = list(ufo.glyphOrder)
    if order[:2] != [".notdef", ".space"] or any(n not in order for n in names) or len(set(order)) != len(order):
        return {"glyphOrder": order, "names": names}
    return None


def job_gid(jc):
    g = strings.load_instrumented("nanoemoji.glyph")
    jc.encode(WF._generate_color_font, WF._ensure_codepoints_will_have_glyphs)
    from harness.C04 import cp_in_class

    shape = jc.params["shape"]  # tuple of tuples of code point classes
    inp = {"seqs": [[core.SymNum(z3.Int(f"s{i}_{j}")) for j in range(len(s))] for i, s in enumerate(shape)]}

    def body():
        seqs = [tuple(cp_in_class(f"s{i}_{j}", c) for j, c in enumerate(s)) for i, s in enumerate(shape)]
        # the property speaks about pairwise-distinct sequences
        for i in range(len(seqs)):
            for k in range(i + 1, len(seqs)):
                if len(seqs[i]) == len(seqs[k]):
                    core.assume(core.SymBool(z3.Or(*[a.t != b.t for a, b in zip(seqs[i], seqs[k])])))
        names = [g.glyph_name(s) for s in seqs]
        ufo, created = _run(seqs, names)
        return seqs, names, ufo, created

    sh = [
        shims.Shim("nanoemoji.write_font", "_ufo", lambda cfg: RecUfo(), "recorder ufo"),
        shims.Shim("nanoemoji.write_font", "ColorGlyph", RecColorGlyph, "recorder for ColorGlyph.create"),
        shims.Shim("nanoemoji.write_font", "glyph_name", g.glyph_name, "instrumented glyph_name"),
        shims.Shim("nanoemoji.write_font", "_COLOR_FORMAT_GENERATORS", {"untouchedsvg": WF.ColorGenerator(lambda *a: None, lambda *a: None, ".ttf")}, "generator not under test"),
    ]
    saved = core.SymNum.__hash__
    core.SymNum.__hash__ = lambda self: 0
    try:
        with shims.installed(sh):
            results = jc.explore(body, catch=(ValueError, AssertionError), max_paths=100000)
    finally:
        core.SymNum.__hash__ = saved
    for r in results:
        if r.cut:
            continue
        if r.exc is not None:
            jc.reach(r, "raised")
            continue  # stopping is always acceptable here
        seqs, names, ufo, created = r.value
        jc.reach(r, "ok")
        order = ufo.glyphOrder
        conj = [z3.BoolVal(order[:2] == [".notdef", ".space"])]
        nm = [SymStr.of(n) for n in names]
        # distinct sources -> distinct glyphs: no two inputs share a glyph id
        for i in range(len(created)):
            for k in range(i + 1, len(created)):
                conj.append(core.as_term(created[i].glyph_id) != core.as_term(created[k].glyph_id))
        # gid == position in the final order
        for cg, n in zip(created, nm):
            gid = cg.glyph_id
            if isinstance(gid, core.SymNum):
                conj.append(z3.BoolVal(False))
                continue
            conj.append(z3.BoolVal(0 <= gid < len(order)))
            if 0 <= gid < len(order):
                conj.append(SymStr.of(order[gid]).eq_term(n))
        jc.prove(r, z3.And(*conj), "distinct sequences get distinct glyph ids; gid == position in glyph order; .notdef=0, .space=1",
                 inp, replay_gid, key="C17:duplicate-glyph-name:_generate_color_font")
    jc.expect_reached("ok")


def replay_named(inp):
    """Inputs as a custom glyph map gives them: explicit glyph names, code point lists that may be empty."""
    from picosvg.geometric_types import Rect

    names, has_cp = inp["names"], inp["has_cp"]
    cps = [((int(inp[f"c{i}"]),) if h else ()) for i, h in enumerate(has_cp)]
    cfg = FontConfig()._replace(color_format="untouchedsvg", output_file="out.ufo", fea_file="")
    svg = type("S", (), {"view_box": lambda self: Rect(0, 0, 10, 10)})()
    inputs = [WF.InputGlyph(None, None, c, n, svg, None) for c, n in zip(cps, names)]
    dup = len(set(names)) != len(names)
    try:
        ufo, _ = WF._generate_color_font(cfg, inputs)
    except Exception as e:
        same_cp = len({c for c in cps if c}) != len([c for c in cps if c])
        return None if (dup or same_cp) else {"names": names, "codepoints": cps, "raised": repr(e)}
    if dup:
        return {"names": names, "codepoints": [list(c) for c in cps], "problem": "two inputs carry the same glyph name; the build did not stop and one replaced the other",
                "glyphOrder": list(ufo.glyphOrder)}
    return None


def job_named(jc):
    """_generate_color_font on inputs with explicit glyph names: a repeated name stops the build whether or
    not the inputs carry code points (symbolic), at every position."""
    jc.encode(WF._generate_color_font, WF._ensure_codepoints_will_have_glyphs)
    names, has_cp = jc.params["names"], jc.params["has_cp"]
    inp = {"names": list(names), "has_cp": list(has_cp)}
    for i, h in enumerate(has_cp):
        if h:
            inp[f"c{i}"] = core.SymNum(z3.Int(f"c{i}"))
    dup = len(set(names)) != len(names)

    def body():
        cps = [((core.integer(f"c{i}", 0x21, 0x10FFFF),) if h else ()) for i, h in enumerate(has_cp)]
        cfg = FontConfig()._replace(color_format="untouchedsvg", output_file="out.ufo", fea_file="")
        inputs = [WF.InputGlyph(None, None, c, n, None, None) for c, n in zip(cps, names)]
        RecColorGlyph.created = []
        ufo, _ = WF._generate_color_font(cfg, inputs)
        return ufo, list(RecColorGlyph.created)

    sh = [
        shims.Shim("nanoemoji.write_font", "_ufo", lambda cfg: RecUfo(), "recorder ufo"),
        shims.Shim("nanoemoji.write_font", "ColorGlyph", RecColorGlyph, "recorder for ColorGlyph.create"),
        shims.Shim("nanoemoji.write_font", "_COLOR_FORMAT_GENERATORS", {"untouchedsvg": WF.ColorGenerator(lambda *a: None, lambda *a: None, ".ttf")}, "generator not under test"),
    ]
    saved = core.SymNum.__hash__
    core.SymNum.__hash__ = lambda self: 0
    try:
        with shims.installed(sh):
            results = jc.explore(body, catch=(ValueError, AssertionError), max_paths=2000)
    finally:
        core.SymNum.__hash__ = saved
    for r in results:
        if r.exc is not None:
            jc.reach(r, "raised")
            same_cp = [z3.Int(f"c{i}") == z3.Int(f"c{k}") for i in range(len(names)) for k in range(i + 1, len(names)) if has_cp[i] and has_cp[k]]
            jc.prove(r, z3.Or(z3.BoolVal(dup), *same_cp), "the build stops only for a repeated glyph name (or code point)", inp, replay_named, key="C17:duplicate-glyph-name:named:spurious")
            continue
        ufo, created = r.value
        jc.reach(r, "ok")
        gids = [c.glyph_id for c in created]
        jc.prove(r, z3.BoolVal(not dup and len(created) == len(names) and len(set(gids)) == len(gids)), "a repeated glyph name never yields a font (no source is dropped or merged)", inp, replay_named,
                 key="C17:duplicate-glyph-name:named")
    jc.expect_reached("raised" if dup else "ok")


def named_jobs(tier):
    import itertools

    js = []
    # incl. names of glyphs the UFO starts out with: they are in the glyph order before any input is seen
    for names in (("a", "a"), ("a", "b"), ("a", "b", "a"), ("b", "a", "a"), ("a", "a", "b"), (".notdef", ".notdef"), ("a", ".notdef", ".notdef"), (".space", "a", ".space"), (".notdef", "a")):
        for has_cp in itertools.product((True, False), repeat=len(names)):
            js.append(Job(f"named_inputs[{','.join(names)}|cps {''.join('y' if h else 'n' for h in has_cp)}]", job_named, names=names, has_cp=has_cp))
    return js



def jobs(tier):
    # total code points <= 3 per job: set/sort/containment over symbolic names forks steeply
    # (measured: 4 code points > 1400 paths / 10 min)
    shapes = [(("x5",), ("x5",)), (("x5",), ("L", "x5")), (("L",), ("x2",)), (("x5",), ("x5", "x4")), (("L",), ("L", "x5")), (("x4",), ("x4",), ("x4",))]
    if tier != "quick":
        shapes += [(("x3",), ("L", "x3")), (("x5",), ("x4", "x5")), (("x2",), ("x2", "x2")), (("x5",), ("x5",), ("L",)), (("L", "x5", "x4"),), (("x6",), ("L", "x6"))]
    return [Job(f"gid_bookkeeping[{'|'.join('.'.join(s) for s in sh)}]", job_gid, shape=sh) for sh in shapes] + named_jobs(tier)
