"""C04 / C10: the file-name -> code-point reading (codepoints.from_filename).

`regex` is a C extension, so the call itself cannot be executed symbolically.  What the function *is*
is its pattern: the pattern string is read from the current source (AST), translated term by term into
a z3 regular expression (sre parse tree -> z3.Re), and the solver decides language inclusions over all
strings:

  (a) every hex spelling of a Unicode scalar value (1..6 hex digits, either case) is a complete match of
      the capture group -- so no code point is split or truncated;
  (b) everything the capture group can match is a non-empty hex run (int(s, 16) is defined);
  (c) every canonical name "emoji_u" H ("_" H){0,K} and bare H ([-_] H){0,K} is matched from its first
      character to its last by the whole pattern.

A `sat` answer is a concrete file name; it is replayed on the real from_filename against the reading
"split at - or _, parse each run as hex".  The translator is validated by pushing names through both
re (the translated tree's source) and the real function.
"""
from __future__ import annotations

import ast
import inspect
import itertools
import time

import z3

from symx import core
from symx.runner import Job

from nanoemoji import codepoints as CP

K = 4  # separators after the first code point in the canonical-name languages


def pattern_from_source():
    tree = ast.parse(inspect.getsource(CP.from_filename))
    for node in ast.walk(tree):
        if isinstance(node, ast.Call) and isinstance(node.func, ast.Attribute) and node.func.attr in ("search", "match", "fullmatch") and node.args and isinstance(node.args[0], ast.Constant) and isinstance(node.args[0].value, str):
            return node.args[0].value, node.func.attr
    raise core.HarnessError("from_filename no longer calls regex.search/match with a literal pattern")


def to_z3(items, groups):
    import re._parser as sp
    from re._constants import LITERAL, IN, RANGE, MAX_REPEAT, MIN_REPEAT, SUBPATTERN, BRANCH, AT, MAXREPEAT, NOT_LITERAL, NEGATE, CATEGORY, ANY

    eps = z3.Re("")
    out = []
    for op, arg in items:
        if op is LITERAL:
            out.append(z3.Re(chr(arg)))
        elif op is IN:
            alts = []
            for o2, a2 in arg:
                if o2 is LITERAL:
                    alts.append(z3.Re(chr(a2)))
                elif o2 is RANGE:
                    alts.append(z3.Range(chr(a2[0]), chr(a2[1])))
                else:
                    raise core.HarnessError(f"unsupported character-set item {o2} in the file-name pattern")
            out.append(alts[0] if len(alts) == 1 else z3.Union(*alts))
        elif op in (MAX_REPEAT, MIN_REPEAT):
            lo, hi, sub = arg
            r = to_z3(sub, groups)
            if hi is MAXREPEAT:
                out.append(z3.Concat(z3.Loop(r, lo, lo), z3.Star(r)) if lo > 0 else z3.Star(r))
            elif hi == 0:
                out.append(eps)
            else:
                out.append(z3.Loop(r, lo, hi) if (lo, hi) != (0, 1) else z3.Option(r))
        elif op is SUBPATTERN:
            gid, _, _, sub = arg
            r = to_z3(sub, groups)
            if gid is not None:
                groups[gid] = r
            out.append(r)
        elif op is BRANCH:
            out.append(z3.Union(*[to_z3(a, groups) for a in arg[1]]))
        elif op is AT:
            out.append(eps)  # ^ : the languages below are anchored at the first character anyway
        else:
            raise core.HarnessError(f"unsupported regex construct {op} in the file-name pattern")
    if not out:
        return eps
    return out[0] if len(out) == 1 else z3.Concat(*out)


def oracle_codepoints(name):
    """split at - or _ and read each hex run (the reading the property states)"""
    import re

    stem = name[: name.index(".")] if "." in name else name
    if stem.startswith("emoji_u"):
        stem = stem[len("emoji_u"):]
    return tuple(int(h, 16) for h in re.split(r"[-_]", stem) if h)


def replay_name(inp):
    name = inp["name"]
    try:
        got = CP.from_filename(name)
    except Exception as e:
        return {"name": name, "raised": repr(e)}
    want = oracle_codepoints(name)
    if tuple(got) != want:
        return {"name": name, "from_filename": list(got), "expected": list(want)}
    return None


def _included(jc, A, B, label, key, mkname, timeout_ms=60000):
    """decide L(A) subseteq L(B); a witness is replayed on the real function"""
    s = z3.String("s")
    t = time.time()
    v, m, dt = core.check([z3.InRe(s, A), z3.Length(s) <= 64], z3.Not(z3.InRe(s, B)), timeout_ms=timeout_ms)
    jc.q["total"] += 1
    jc.solver_s += dt
    if v == core.Verdict.UNSAT:
        jc.q["unsat"] += 1
        return True
    if v == core.Verdict.UNKNOWN:
        jc.q["unknown"] += 1
        jc.inconclusive.append(f"{jc.job.name}: '{label}' solver returned unknown ({dt:.1f}s)")
        return False
    jc.q["sat"] += 1
    w = m.eval(s, model_completion=True).as_string()
    inp = {"name": mkname(w), "witness": w}
    bad = replay_name(inp)
    if bad is None:
        jc.inconclusive.append(f"{jc.job.name}: '{label}' sat (witness {w!r}) but the real from_filename reads {inp['name']!r} as expected (pattern translation wrong?)")
    else:
        jc.violation(key, label, inp, bad, replay_name)
    return False


def job_filename(jc):
    import re
    import re._parser as sp

    jc.encode(CP.from_filename)
    pattern, how = pattern_from_source()
    groups = {}
    whole = to_z3(sp.parse(pattern), groups)
    if 1 not in groups:
        raise core.HarnessError("the file-name pattern has no capture group 1")
    grp = groups[1]
    hexd = z3.Union(z3.Range("0", "9"), z3.Range("a", "f"), z3.Range("A", "F"))
    H = z3.Loop(hexd, 1, 6)
    jc.paths += 1
    jc.reached["pattern translated"] = jc.reached.get("pattern translated", 0) + 1
    _included(jc, H, grp, "every 1..6 digit hex spelling of a code point is one whole capture of from_filename's pattern", f"{jc.prop_id}:filename:capture", lambda w: f"emoji_u{w}.svg")
    _included(jc, grp, z3.Plus(hexd), "every capture is a non-empty hex run", f"{jc.prop_id}:filename:capture-hex", lambda w: f"emoji_u{w}.svg")
    canon = z3.Concat(z3.Re("emoji_u"), H, z3.Loop(z3.Concat(z3.Re("_"), H), 0, K))
    bare = z3.Concat(H, z3.Loop(z3.Concat(z3.Union(z3.Re("_"), z3.Re("-")), H), 0, K))
    _included(jc, canon, whole, "a canonical emoji_u<hex>(_<hex>)* name is matched from first to last character", f"{jc.prop_id}:filename:canonical", lambda w: w + ".svg")
    _included(jc, bare, whole, "a bare <hex>([-_]<hex>)* name is matched from first to last character", f"{jc.prop_id}:filename:bare", lambda w: w + ".svg")
    # translator validation on fixed patterns (independent of the repo's state): z3 membership == re.fullmatch
    for pat, words in ((r"(?:^ab)?(?:[-_]?([0-9a-f]{1,}))+", ["ab1f", "1f_2", "ab", "", "1f-", "zz"]), (r"a{2,3}(b|cd)*", ["aa", "aaacdb", "a", "aaaa", "aab"])):
        R = to_z3(sp.parse(pat), {})
        for w in words:
            v, _, _ = core.check([], z3.InRe(z3.StringVal(w), R), timeout_ms=10000)
            jc.concrete_validations += 1
            if (v == core.Verdict.SAT) != (re.fullmatch(pat, w) is not None):
                raise core.HarnessError(f"regex -> z3 translation disagrees with re on {pat!r} / {w!r}")
    # greedy-match semantics on concrete names (the C engine decides how a name is cut up)
    samples = ["emoji_u1f600.svg", "emoji_u10fffd.svg", "emoji_u1f468_200d_1f469_200d_1f467.svg", "1F1E6-1F1FA.svg", "emoji_u0023_fe0f_20e3.svg", "emoji_uE0067.svg", "emoji_u100000_10ffff.svg", "a.svg", "emoji_u0.svg"]
    for a, b in itertools.product(("1", "1f", "1f6", "1f60", "1f600", "10ffff", "0041", "E0067"), repeat=2):
        samples.append(f"emoji_u{a}_{b}.svg")
    import regex as real_regex
    from symx.regex_model import RegexModule

    for name in samples + ["", "zz", "emoji_u", "--1f", "emoji_u1f600_", "g_1f600.svg", "emoji_uzz_1f.svg"]:
        a, b = real_regex.search(pattern, name), RegexModule().search(pattern, name)
        jc.concrete_validations += 1
        if (a is None) != (b is None) or (a is not None and (a.captures(1) != b.captures(1) or a.group(0) != b.group(0))):
            raise core.HarnessError(f"symx.regex_model disagrees with the regex module on {pattern!r} / {name!r}")
    for name in samples:
        jc.concrete_validations += 1
        bad = replay_name({"name": name})
        if bad is not None:
            jc.violation(f"{jc.prop_id}:filename:sample", "from_filename reads each hex run between separators as one code point", {"name": name}, bad, replay_name)


# ------------------------------------------------------------------ the whole function on symbolic names


def _hexval(t):
    return z3.If(t <= 57, t - 48, z3.If(t <= 70, t - 55, t - 87))


def job_names_sym(jc):
    """codepoints.from_filename executed (instrumented from its current source, `regex` replaced by the backtracking
    matcher in symx/regex_model.py) on file names  [emoji_u] H ([-_] H)* .svg  whose hex digits are symbolic
    (any of 0-9a-fA-F) and whose separators are symbolic ('-' or '_'); run lengths are the job's parameter.
    The result must be the tuple of the values of the hex runs, in order."""
    from symx import strings
    from symx.regex_model import RegexModule

    jc.encode(CP.from_filename)
    prefix, lens = jc.params["prefix"], jc.params["lens"]
    g = strings.load_instrumented("nanoemoji.codepoints", rebind={"regex": RegexModule()})
    names = [f"h{i}_{j}" for i, n in enumerate(lens) for j in range(n)] + [f"sep{i}" for i in range(1, len(lens))]
    inp = {"prefix": prefix, "lens": list(lens)}
    inp.update({n: core.SymNum(z3.Int(n)) for n in names})

    def build():
        chars = [ord(ch) for ch in prefix]
        runs = []
        for i, n in enumerate(lens):
            if i:
                sep = core.integer(f"sep{i}", 45, 95)
                core.assume(core.SymBool(z3.Or(sep.t == 45, sep.t == 95)))
                chars.append(sep)
            run = []
            for j in range(n):
                c = core.integer(f"h{i}_{j}", 48, 102)
                core.assume(core.SymBool(z3.Or(z3.And(c.t >= 48, c.t <= 57), z3.And(c.t >= 65, c.t <= 70), z3.And(c.t >= 97, c.t <= 102))))
                run.append(c)
            runs.append(run)
            chars += run
        return SymStr(chars + [ord(ch) for ch in ".svg"]), runs

    def body():
        name, runs = build()
        return runs, g.from_filename(name)

    results = jc.explore(body, max_paths=20000, catch=(ValueError,))
    key = f"{jc.prop_id}:filename:function"
    for r in results:
        if not jc.no_exception(r, inp, replay_sym_name, key + ":raises"):
            continue
        runs, got = r.value
        jc.reach(r, "ok")
        want = []
        for run in runs:
            v = z3.IntVal(0)
            for c in run:
                v = v * 16 + _hexval(c.t)
            want.append(v)
        ok = len(got) == len(want)
        conj = [z3.BoolVal(ok)] + ([core.as_term(a) == b for a, b in zip(got, want)] if ok else [])
        jc.prove(r, z3.And(*conj), "from_filename returns exactly the hex runs of the name as code points, in order", inp, replay_sym_name, key=key)
    jc.expect_reached("ok")


def replay_sym_name(inp):
    lens, prefix = inp["lens"], inp["prefix"]
    name = prefix
    for i, n in enumerate(lens):
        if i:
            name += chr(int(inp[f"sep{i}"]))
        name += "".join(chr(int(inp[f"h{i}_{j}"])) for j in range(n))
    return replay_name({"name": name + ".svg"})


from symx.strings import SymStr  # noqa: E402


def jobs(tier):
    js = [Job("from_filename[pattern]", job_filename)]
    shapes = [(1,), (4,), (6,), (2, 1), (5, 4), (4, 4, 5)] if tier == "quick" else [(1,), (2,), (3,), (4,), (5,), (6,), (1, 1), (2, 1), (4, 4), (5, 4), (6, 6), (2, 2, 2), (5, 4, 4), (4, 4, 4, 5)]
    for lens in shapes:
        for prefix in ("emoji_u", ""):
            js.append(Job(f"from_filename[{prefix or 'bare'}|{','.join(map(str, lens))}]", job_names_sym, prefix=prefix, lens=lens))
    return js
