"""C04: every source is reachable from its codepoints, and only from them.

K1  glyph.glyph_name / features.generate_fea through the instrumenting loader with
    symbolic code points: injectivity, fea-legality, rule shape.
K2  write_font._ensure_codepoints_will_have_glyphs with a recorder ufo.
K3  glyph-id bookkeeping of write_font._generate_color_font (names by explicit choice).
K4  color_glyph._advance_width / ColorGlyph.create advance rule.
"""
from __future__ import annotations

import itertools
from fractions import Fraction

import z3

from symx import core, shims, strings
from symx.strings import SymStr
from symx.runner import Job, run_property

from nanoemoji import glyph as GLYPH
from nanoemoji import features as FEATURES
from nanoemoji import color_glyph as CG
from nanoemoji.config import FontConfig
from picosvg.geometric_types import Rect

MAXCP = 0x10FFFF
MINCP = 0x21

# code point classes: structure picked by the job, values symbolic inside the class
CLASSES = {
    "L": None,  # ascii letter
    "x2": (0x21, 0xFF),
    "x3": (0x100, 0xFFF),
    "x4": (0x1000, 0xFFFF),
    "x5": (0x10000, 0xFFFFF),
    "x6": (0x100000, MAXCP),
}


def cp_in_class(name, cls):
    if isinstance(cls, int):  # a concrete code point: lets a job carry a long sequence without symbolic name hashing
        return cls
    if cls == "L":
        v = core.integer(name, 65, 122)
        core.assume(core.sym_or(v <= 90, v >= 97))
        return v
    lo, hi = CLASSES[cls]
    v = core.integer(name, lo, hi)
    if cls == "x2":
        # exclude ascii letters (class L) so classes are disjoint
        core.assume(core.sym_not(core.sym_or(core.sym_and(v >= 65, v <= 90), core.sym_and(v >= 97, v <= 122))))
    return v


_INSTR = {}


def instrumented():
    if not _INSTR:
        g = strings.load_instrumented("nanoemoji.glyph")
        f = strings.load_instrumented("nanoemoji.features", rebind={"glyph_name": g.glyph_name})
        _INSTR["glyph"], _INSTR["features"] = g, f
    return _INSTR["glyph"], _INSTR["features"]


def validate_instrumentation(jc):
    """Original and instrumented modules agree on concrete inputs (incl. the repo's tests)."""
    g, f = instrumented()
    seqs = [(0x1F600,), (0x67, 0x1F600), (0x41,), (0x23, 0x20E3), (0x1F469, 0x200D, 0x1F469, 0x200D, 0x1F467), (0x2198,), (0xE9, 0x301),
            tuple([0x1F469, 0x1F3FD, 0x200D] * 5), (0x100000,) * 9, (0x39,), (0x5A, 0x7A)]
    for s in seqs:
        if g.glyph_name(s) != GLYPH.glyph_name(s):
            raise core.HarnessError(f"instrumented glyph_name differs on {s}")
        jc.concrete_validations += 1
    for tag in ("ccmp", "rlig"):
        if f.generate_fea(seqs, tag) != FEATURES.generate_fea(seqs, tag):
            raise core.HarnessError("instrumented generate_fea differs")
        jc.concrete_validations += 1


def legal_name(name: SymStr) -> z3.BoolRef:
    """fea glyph-name grammar [A-Za-z_][A-Za-z0-9._]* and length <= 63."""
    def alpha(t):
        return z3.Or(z3.And(t >= 65, t <= 90), z3.And(t >= 97, t <= 122))

    conj = [z3.BoolVal(1 <= len(name) <= 63)]
    for i, c in enumerate(name.chars):
        t = strings._ct(c)
        ok = z3.Or(alpha(t), t == 95)
        if i:
            ok = z3.Or(ok, z3.And(t >= 48, t <= 57), t == 46)
        conj.append(ok)
    return z3.And(*conj)


def replay_names(inp):
    A, B = tuple(int(x) for x in inp["A"]), tuple(int(x) for x in inp.get("B", []))
    import re

    out = {}
    na = GLYPH.glyph_name(A)
    if not re.fullmatch(r"[A-Za-z_][A-Za-z0-9._]*", na) or len(na) > 63:
        out["illegal_name"] = {"codepoints": [hex(c) for c in A], "name": na, "len": len(na)}
    if B:
        nb = GLYPH.glyph_name(B)
        if A != B and na == nb:
            out["collision"] = {"A": [hex(c) for c in A], "B": [hex(c) for c in B], "name": na}
        if not re.fullmatch(r"[A-Za-z_][A-Za-z0-9._]*", nb) or len(nb) > 63:
            out["illegal_name_B"] = {"codepoints": [hex(c) for c in B], "name": nb, "len": len(nb)}
    return out or None


def refine_isalpha(conc):
    """Ground truth for the uninterpreted str.isalpha outside ASCII, for the 256-block around every code
    point of a witness that did not reproduce (counterexample-guided refinement of the one modelled builtin)."""
    out = []
    for seq in (conc.get("A") or []), (conc.get("B") or []):
        for v in seq:
            v = int(v)
            if v < 128:
                continue
            base = v - v % 256
            for k in range(max(128, base), min(base + 256, 0x110000)):
                out.append(strings.UF_ISALPHA_NONASCII(z3.IntVal(k)) == z3.BoolVal(chr(k).isalpha()))
    return out



def job_names(jc):
    g, _ = instrumented()
    jc.encode(GLYPH.glyph_name, GLYPH._name)
    validate_instrumentation(jc)
    ca, cb = jc.params["A"], jc.params["B"]
    inp = {"A": [core.SymNum(z3.Int(f"a{i}")) for i in range(len(ca))], "B": [core.SymNum(z3.Int(f"b{i}")) for i in range(len(cb))]}

    def body():
        A = tuple(cp_in_class(f"a{i}", c) for i, c in enumerate(ca))
        B = tuple(cp_in_class(f"b{i}", c) for i, c in enumerate(cb))
        na = g.glyph_name(A)
        nb = g.glyph_name(B) if B else None
        return A, B, na, nb

    results = jc.explore(body, max_paths=200000)
    for r in results:
        if r.cut:
            continue
        if not jc.no_exception(r, inp, replay_names, "C04:names:raises"):
            continue
        A, B, na, nb = r.value
        na, nb = SymStr.of(na), (SymStr.of(nb) if nb is not None else None)
        jc.reach(r, "ok")
        jc.prove(r, legal_name(na), "glyph name is legal in feature files (grammar, <= 63 chars)", inp, replay_names, key="C04:names:illegal", refine=refine_isalpha)
        if nb is None:
            continue
        if len(A) == len(B):
            same_seq = z3.And(*[a.t == b.t for a, b in zip(A, B)])
        else:
            same_seq = z3.BoolVal(False)
        eq = na.eq_term(nb)
        if z3.is_false(z3.simplify(eq)):
            # decided without a query: lengths or a concrete character differ
            jc.obligations.setdefault("distinct by length/concrete char (no query needed)", {"unsat": 0, "sat": 0, "unknown": 0})["unsat"] += 1
            continue
        jc.prove(r, z3.Implies(eq, same_seq), "distinct code point sequences get distinct glyph names", inp, replay_names, key="C04:names:collision", refine=refine_isalpha)
        jc.sample(A=ca, B=cb, name_a=repr(na)[:60])


# ---------------------------------------------------------------- long names (sha1 branch)


def job_long_names(jc):
    """Names > 63 chars: sha1+b32 modelled as an injective function of the hashed string."""
    g, _ = instrumented()
    jc.encode(GLYPH.glyph_name)
    ca, cb = jc.params["A"], jc.params["B"]
    inp = {"A": [core.SymNum(z3.Int(f"a{i}")) for i in range(len(ca))], "B": [core.SymNum(z3.Int(f"b{i}")) for i in range(len(cb))]}

    def body():
        A = tuple(cp_in_class(f"a{i}", c) for i, c in enumerate(ca))
        B = tuple(cp_in_class(f"b{i}", c) for i, c in enumerate(cb))
        # bound of this job: non-ASCII isalpha fixed to False (the code conjoins isascii; both
        # values are explored in the short-sequence jobs) -- avoids 2^(2n) irrelevant forks
        for v in A + B:
            core.assume(core.SymBool(z3.Not(strings.UF_ISALPHA_NONASCII(v.t))))
        return A, B, g.glyph_name(A), g.glyph_name(B)

    results = jc.explore(body, max_paths=20000)
    for r in results:
        if not jc.no_exception(r, inp, replay_names, "C04:names:raises"):
            continue
        A, B, na, nb = r.value
        na, nb = SymStr.of(na), SymStr.of(nb)
        jc.reach(r, "hashed" if na.source is not None else "plain")
        jc.prove(r, legal_name(na), "glyph name is legal in feature files (grammar, <= 63 chars)", inp, replay_names, key="C04:names:illegal", refine=refine_isalpha)
        same_seq = z3.And(*[a.t == b.t for a, b in zip(A, B)]) if len(A) == len(B) else z3.BoolVal(False)
        eq = na.eq_term(nb)
        if z3.is_false(z3.simplify(eq)):
            continue
        jc.prove(r, z3.Implies(eq, same_seq), "distinct long sequences get distinct (hashed) glyph names", inp, replay_names, key="C04:names:collision", refine=refine_isalpha)


# ---------------------------------------------------------------- fea rules


def replay_fea(inp):
    seqs = [tuple(int(c) for c in s) for s in inp["seqs"]]
    text = FEATURES.generate_fea(seqs)
    lines = [l.strip() for l in text.split("\n") if l.strip().startswith("sub ")]
    want = []
    for s in seqs:
        if len(s) > 1:
            want.append("sub %s by %s;" % (" ".join(GLYPH.glyph_name(c) for c in s), GLYPH.glyph_name(s)))
    if sorted(lines) != sorted(want) or "feature ccmp {" not in text or "} ccmp;" not in text:
        return {"fea": text, "expected_rules": want}
    return None


def job_fea(jc):
    g, f = instrumented()
    jc.encode(FEATURES.generate_fea)
    shape = jc.params["shape"]  # tuple of tuples of classes
    inp = {"seqs": [[core.SymNum(z3.Int(f"s{i}_{j}")) for j in range(len(s))] for i, s in enumerate(shape)]}

    def body():
        seqs = [tuple(cp_in_class(f"s{i}_{j}", c) for j, c in enumerate(s)) for i, s in enumerate(shape)]
        text = f.generate_fea(seqs)
        want = []
        for s in seqs:
            if len(s) > 1:
                want.append(SymStr.of("  sub ") + SymStr.of(" ").join([g.glyph_name(c) for c in s]) + " by " + g.glyph_name(s) + ";")
        return seqs, text, want

    results = jc.explore(body, max_paths=50000)
    for r in results:
        if not jc.no_exception(r, inp, replay_fea, "C04:fea:raises"):
            continue
        seqs, text, want = r.value
        text = SymStr.of(text)
        # split on concrete newlines
        lines, cur = [], []
        for c in text.chars:
            if not isinstance(c, core.SymNum) and c == 10:
                lines.append(SymStr(cur))
                cur = []
            else:
                cur.append(c)
        lines.append(SymStr(cur))
        subs = [l for l in lines if len(l) > 6 and SymStr(l.chars[:6]).is_concrete() and SymStr(l.chars[:6]).concrete() == "  sub "]
        jc.reach(r, f"{len(want)} rules")
        conj = [z3.BoolVal(len(subs) == len(want))]
        # each expected rule appears, as many times as expected (multiset equality via counts)
        for w in want:
            cnt_got = z3.Sum(*[z3.If(l.eq_term(w), 1, 0) for l in subs]) if subs else z3.IntVal(0)
            cnt_want = z3.Sum(*[z3.If(x.eq_term(w), 1, 0) for x in want])
            conj.append(cnt_got == cnt_want)
        head = [l.concrete() for l in lines if l.is_concrete()]
        conj.append(z3.BoolVal("feature ccmp {" in head and "} ccmp;" in head and "languagesystem DFLT dflt;" in head))
        jc.prove(r, z3.And(*conj), "fea: exactly one 'sub <components> by <ligature>' per multi-codepoint sequence, none for singles", inp, replay_fea, key="C04:fea:rules")


# ---------------------------------------------------------------- blank glyphs


class RecUfo:
    def __init__(self):
        self.glyphOrder = [".notdef", ".space"]
        self.new = []

    def newGlyph(self, name):
        gl = type("G", (), {})()
        gl.name = name
        gl.unicode = None
        self.new.append(gl)
        return gl


def replay_blanks(inp):
    from nanoemoji import write_font as WF
    import ufoLib2

    seqs = [tuple(int(c) for c in s) for s in inp["seqs"]]
    ufo = ufoLib2.Font()
    ufo.newGlyph(".notdef")
    ufo.newGlyph(".space")
    ufo.glyphOrder = [".notdef", ".space"]
    GI = type("GI", (), {})
    gis = []
    for s in seqs:
        gi = GI()
        gi.codepoints = s
        gis.append(gi)
    try:
        WF._ensure_codepoints_will_have_glyphs(ufo, gis)
    except Exception as e:
        return {"seqs": seqs, "raised": repr(e)}
    allc = {c for s in seqs for c in s}
    direct = {s[0] for s in seqs if len(s) == 1}
    want = allc - direct
    got = {g.unicode for g in ufo if g.name not in (".notdef", ".space")}
    order_ok = list(ufo.glyphOrder[2:]) == sorted(ufo.glyphOrder[2:])
    if got != want or not order_ok or len(ufo.glyphOrder) != 2 + len(want):
        return {"seqs": [[hex(c) for c in s] for s in seqs], "blank_glyph_unicodes": sorted(hex(c) if c is not None else "none" for c in got), "expected": sorted(hex(c) for c in want), "glyphOrder": list(ufo.glyphOrder)}
    return None


def job_blanks(jc):
    from nanoemoji import write_font as WF

    g, _ = instrumented()
    jc.encode(WF._ensure_codepoints_will_have_glyphs)
    shape = jc.params["shape"]
    inp = {"seqs": [[core.SymNum(z3.Int(f"s{i}_{j}")) for j in range(n)] for i, n in enumerate(shape)]}

    def body():
        lo, hi = jc.params.get("range", (0x1F000, 0x1FFFF))
        seqs = [tuple(core.integer(f"s{i}_{j}", lo, hi) for j in range(n)) for i, n in enumerate(shape)]
        for s in seqs:
            for c in s:
                core.assume(core.SymBool(z3.Or(c.t < 0xD800, c.t > 0xDFFF)))
        ufo = RecUfo()
        GI = type("GI", (), {})
        gis = []
        for s in seqs:
            gi = GI()
            gi.codepoints = s
            gis.append(gi)
        WF._ensure_codepoints_will_have_glyphs(ufo, gis)
        return seqs, ufo

    saved = core.SymNum.__hash__
    core.SymNum.__hash__ = lambda self: 0
    try:
        with shims.installed([shims.Shim("nanoemoji.write_font", "glyph_name", g.glyph_name, "instrumented glyph_name (string kernel)")]):
            results = jc.explore(body, max_paths=50000)
    finally:
        core.SymNum.__hash__ = saved
    for r in results:
        if not jc.no_exception(r, inp, replay_blanks, "C04:blanks:raises"):
            continue
        seqs, ufo = r.value
        jc.reach(r, f"{len(ufo.new)} blanks")
        allc = [c for s in seqs for c in s]
        direct = [s[0] for s in seqs if len(s) == 1]
        conj = []
        # every cp not directly mapped has exactly one blank glyph carrying it
        for c in allc:
            is_direct = z3.Or(*[c.t == d.t for d in direct]) if direct else z3.BoolVal(False)
            carrying = [gl for gl in ufo.new if getattr(gl, "unicode", None) is not None]  # a blank glyph without a code point carries nothing
            n_blank = z3.Sum(*[z3.If(core.as_term(gl.unicode) == z3.ToReal(c.t), 1, 0) for gl in carrying]) if carrying else z3.IntVal(0)
            conj.append(z3.If(is_direct, n_blank == 0, n_blank == 1))
        # every blank glyph carries a cp that occurs in the inputs
        for gl in ufo.new:
            conj.append(z3.Or(*[core.as_term(gl.unicode) == z3.ToReal(c.t) for c in allc]) if getattr(gl, "unicode", None) is not None else z3.BoolVal(False))
        order = ufo.glyphOrder
        conj.append(z3.BoolVal(order[:2] == [".notdef", ".space"] and len(order) == 2 + len(ufo.new)))
        jc.prove(r, z3.And(*conj), "blank glyphs = (all code points) - (single-codepoint inputs), each once, with its unicode", inp, replay_blanks, key="C04:blanks:set")


# ---------------------------------------------------------------- advance rule


def replay_advance(inp):
    h, w, F, width = inp["h"], float(inp["w"]), int(inp["F"]), int(inp["width"])
    kind = inp.get("kind", "fn")
    cfg = FontConfig()._replace(ascender=F - 250, descender=-250, width=width)
    if kind == "fn":
        got = CG._advance_width(Rect(0, 0, w, h), cfg)
    else:
        got = _create_width(kind, cfg, w, h)
    prop = F * w / h
    if got != max(width, got) or (got != width and abs(got - prop) > 0.5 + 1e-9) or (got == width and prop - width > 0.5 + 1e-9):
        return {"viewbox/bitmap": [w, h], "em_height": F, "width": width, "advance": got, "proportional": prop, "via": kind}
    return None


def _create_width(kind, cfg, w, h):
    import ufoLib2

    ufo = ufoLib2.Font()
    if kind == "bitmap":
        cfg = cfg._replace(color_format="cbdt")
        bmp = type("B", (), {"size": (w, h)})()
        cgl = CG.ColorGlyph.create(cfg, ufo, "", 2, "g", (0x41,), None, "b.png", bmp)
    else:
        cfg = cfg._replace(color_format="untouchedsvg")
        svg = type("S", (), {"view_box": lambda self: Rect(0, 0, w, h)})()
        cgl = CG.ColorGlyph.create(cfg, ufo, "a.svg", 2, "g", (0x41,), svg)
    return ufo["g"].width


def job_advance(jc):
    jc.encode(CG._advance_width, CG.ColorGlyph.create)
    h, kind = jc.params["h"], jc.params["kind"]
    inp = {"h": h, "kind": kind, "w": core.SymNum(z3.Real("w")), "F": core.SymNum(z3.Int("F")), "width": core.SymNum(z3.Int("width"))}

    def body():
        if kind == "bitmap":
            w = core.integer("wi", 1, 4 * h)
            wr = core.real("w")
            core.assume(wr == w)
        else:
            w = core.real("w", Fraction(h, 4), 4 * h)
        F = core.integer("F", 16, 4096)
        width = core.integer("width", 0, 8192)
        cfg = FontConfig()._replace(ascender=F - 250, descender=-250, width=width)
        if kind == "fn":
            return w, F, width, CG._advance_width(Rect(0, 0, w, h), cfg)
        return w, F, width, _create_width(kind, cfg, w, h)

    with shims.installed(shims.numeric_shims("nanoemoji.color_glyph")):
        results = jc.explore(body)
    for r in results:
        if not jc.no_exception(r, inp, replay_advance, "C04:advance:raises"):
            continue
        w, F, width, A = r.value
        jc.reach(r, "ok")
        prop = core.as_term(F) * core.as_term(w) / h
        At, Wt = core.as_term(A), core.as_term(width)
        half = z3.RealVal(Fraction(1, 2))
        # A = max(width, P) for an integer P with |P - prop| <= 1/2
        p = z3.Or(z3.And(At == Wt, prop - Wt <= half), z3.And(At >= Wt, At - prop <= half, prop - At <= half))
        jc.prove(r, p, "advance = max(configured width, round(em height * w / h))", inp, replay_advance, key=f"C04:advance:{kind}")
        jc.sample(kind=kind, h=h, advance=repr(A)[:80])
    jc.expect_reached("ok")


def jobs(tier):
    js = []
    cls = list(CLASSES)
    # K1 names: A alone (legality) and pairs (injectivity)
    # (m, n, restrict): restrict=True keeps only patterns where the longer sequence starts with an
    # ASCII letter -- the only way a leading "g_" can arise without the prefix rule
    if tier == "quick":
        pairs = [(1, 1, False), (1, 2, False), (2, 2, False), (1, 3, False), (2, 3, True)]
    else:
        pairs = [(1, 1, False), (1, 2, False), (2, 2, False), (1, 3, False), (2, 3, False), (3, 3, True), (1, 4, False), (2, 4, True)]
    for m, n, restrict in pairs:
        for ca in itertools.product(cls, repeat=m):
            for cb in itertools.product(cls, repeat=n):
                # only class patterns whose name lengths can coincide need the solver at all
                if not _lens_can_match(ca, cb):
                    continue
                if restrict and cb[0] != "L" and ca[0] != "L":
                    continue
                if m == n and ca > cb:
                    continue  # the property is symmetric in the two sequences
                js.append(Job(f"names[{'.'.join(ca)}|{'.'.join(cb)}]", job_names, A=ca, B=cb))
    # long names around the 63-char boundary and beyond
    for n, c in ((9, "x6"), (10, "x6"), (11, "x5"), (13, "x4"), (14, "x5")):
        js.append(Job(f"long_names[{n}x{c}]", job_long_names, A=(c,) * n, B=(c,) * n))
    js.append(Job("long_names[mixed 62]", job_long_names, A=("x6",) * 8 + ("x5", "L"), B=("x6",) * 8 + ("x5", "L")))
    js.append(Job("long_names[L-first 64]", job_long_names, A=("L",) + ("x6",) * 9, B=("L",) + ("x6",) * 9))
    # fea
    shapes = [(("x5",),), (("x5", "x4"),), (("x5", "x4"), ("x5",)), (("L", "x5"), ("x4",))]
    if tier != "quick":
        shapes += [(("L", "x5"), ("x5", "x4", "x5")), (("x2", "x4"), ("x5", "x4"), ("L",))]
    # sequence LENGTH is what decides whether a rule is written: long sequences of concrete code points (4..14) next
    # to a short symbolic one
    long_seq = lambda n: tuple([0x1F468, 0x1F3FB, 0x200D, 0x2764, 0xFE0F, 0x200D, 0x1F48B, 0x200D, 0x1F469, 0x1F3FC, 0xE0067, 0xE0062, 0xE007F, 0x1F9B0][:n])
    for n in ((5, 11, 14) if tier == "quick" else range(4, 15)):
        js.append(Job(f"fea[{n} concrete code points + (x5,x4)]", job_fea, shape=(long_seq(n), ("x5", "x4"))))
    for sh in shapes:
        js.append(Job(f"fea[{sh}]", job_fea, shape=sh))
    # blanks
    for sh in [(1,), (2,), (1, 2), (1, 1), (3,), (1, 1, 1)] + ([(1, 3), (2, 2)] if tier != "quick" else []):
        js.append(Job(f"blanks[{sh}]", job_blanks, shape=sh))
    # ... over every scalar value above U+0020 (variation selectors, tags, plane 16 included), small shapes
    for sh in [(2,), (1, 1)] + ([(1, 2)] if tier != "quick" else []):  # (3,) exceeds 50000 paths over the full range
        js.append(Job(f"blanks[{sh},all scalar values]", job_blanks, shape=sh, range=(0x21, 0x10FFFF)))
    # advance
    for h in (10, 24, 36, 70, 100, 128, 1000) if tier == "quick" else (7, 10, 24, 36, 64, 70, 100, 128, 136, 512, 1000, 1024):
        for kind in ("fn", "svg", "bitmap"):
            js.append(Job(f"advance[{kind},h={h}]", job_advance, h=h, kind=kind))
    from harness import C04_gid

    js += C04_gid.jobs(tier)
    from harness import C04_filename

    js += C04_filename.jobs(tier)
    from harness import C02, C14

    # bitmap formats: the image must be filed under the glyph the code points lead to
    for fmt in ("cbdt", "sbix"):
        js.append(Job(f"metrics[{fmt},square,upem=1024,F=1200,h=128]", C14.job_metrics, upem=1024, F=1200, h=128, mode="square", fmt=fmt))
    for sc in C02.SCENARIOS:
        if sc.startswith("reuse across glyphs") or sc.startswith("three unrelated"):
            js.append(Job(f"svg docs[{sc}]", C02.job_docs, scenario=sc, affine="translation"))
    return js


def _len_range(c):
    return {"L": (1, 1), "x2": (2, 2), "x3": (3, 3), "x4": (4, 4), "x5": (5, 5), "x6": (6, 6)}[c]


def _approx_len(cs):
    return sum(_len_range(c)[0] for c in cs) + len(cs) - 1


def _lens_can_match(ca, cb):
    la, lb = _approx_len(ca), _approx_len(cb)
    # optional "g_" prefix on either side
    return bool({la, la + 2} & {lb, lb + 2})


def main(tier):
    return run_property(
        "C04",
        jobs(tier),
        tier=tier,
        explanation="Bounded symbolic execution of glyph_name/generate_fea (through an AST-instrumenting loader regenerated from the current source; strings as lists of z3 Int character codes with concrete length per path), of the blank-glyph and glyph-id bookkeeping in write_font, and of the advance rule.",
        bounds={"code point sequences": "quick: up to 2 vs 3 code points (class patterns whose name lengths can coincide); thorough: 3 vs 3 and 2 vs 4", "code points": "0x21..0x10FFFF, value symbolic inside its digit-count class",
                "long names": "9-14 code points of one class, sha1+base32 modelled as an injective function", "advance": "viewBox height from a list, width symbolic real in [h/4,4h], em height 16..4096, width 0..8192"},
        outside=["cmap/GSUB compilation by ufo2ft/feaLib and the shaping engine", "the regex engine's matching order inside codepoints.from_filename (the pattern's language is decided; how the C engine cuts a name is sampled)", "sha1 collisions"],
        assumptions=["sha1+base32 is injective on the hashed string", "non-ASCII isalpha is an uninterpreted predicate (the code conjoins isascii)"],
        shims=["instrumenting loader for nanoemoji.glyph and nanoemoji.features (mod/call/method rewriting)", "SymNum.__hash__ constant in the blank-glyph job (set membership by symbolic equality)"],
        stubs=["ufo -> recorder (newGlyph/glyphOrder) in the blank-glyph job", "SVG/PNG -> objects with view_box()/size in the advance job"],
        budget_s=900 if tier == "quick" else 9000,
    )
