"""C06: shape and gradient reuse never changes what is painted (nanoemoji's half of reuse).

Metamorphic relation on the real code: the same symbolic paint is migrated twice by
write_font._migrate_paths_to_ufo_glyphs -- once with reuse disabled (the documented -1
tolerance, real code path) and once with reuse enabled, picosvg's normalize/affine_between
answering by contract with a SYMBOLIC affine A -- and the two results must denote the same
leaves (count, order, outline placement, colour at every point). COLRv0 / glyf legs run
_colr0_layers / the component loop of _glyf_ufo on both results. The OT-SVG leg lives in C02.
"""
from __future__ import annotations

from fractions import Fraction

import z3
from fontTools.pens.recordingPen import RecordingPen

from symx import core, shims
from symx.runner import Job, run_property
from oracle import paint_semantics as ps
from harness import reuse_common as RC

from nanoemoji import write_font as WF
from nanoemoji import glyph_reuse as GR
from nanoemoji import paint as P
from nanoemoji import fixed
from nanoemoji.colors import Color
from picosvg.svg_transform import Affine2D
from picosvg.geometric_types import Point

TOL = Fraction(1, 1 << 14)


def outline(ufo, name):
    pen = RecordingPen()
    ufo[name].draw(pen)
    return pen.value


def migrate(layers, tolerance, stubs):
    ufo = RC.mk_ufo()
    cache = GR.GlyphReuseCache(tolerance)
    cg = RC.mk_color_glyph(ufo, "base", layers)
    out = WF._migrate_paths_to_ufo_glyphs(cg, cache)
    return ufo, out


def inputs_of(r):
    from harness.C05 import sym_names

    return {n: core.SymNum(z3.Real(n)) for n in sym_names(r)}


def replay_migrate(inp):
    """Concrete: rebuild the paint with floats, run both migrations with a concrete affine from
    the stub, compare denotations numerically."""
    kind = inp["paint"]
    vals = {k: float(v) for k, v in inp.items() if k not in ("paint", "nshapes")}
    saved_R, saved_real = RC.R, core.real
    RC.R = lambda n, lo=-30000, hi=30000: vals.get(n, 0.0)
    core_real = core.real
    try:
        core.real = lambda n, lo=None, hi=None: vals.get(n, 0.0)
        paint = RC.PAINTS[kind]()
    finally:
        RC.R = saved_R
        core.real = core_real
    A = Affine2D(*[vals.get(f"A{i}", (1, 0, 0, 1, 0, 0)[i]) for i in range(6)])
    if abs(A.determinant()) < 1e-2:
        return None
    layers = [P.PaintGlyph(glyph=RC.DONOR, paint=RC.paint_solid()), P.PaintGlyph(glyph=RC.TARGET, paint=paint)]
    stubs = RC.ReuseStubs(lambda d: "shape", lambda a, b: A)
    try:
        with RC.reuse_shims(stubs, stub_transformed=False, stub_algebra=False):
            ufo1, out1 = migrate(layers, 0.1, stubs)
            ufo2, out2 = migrate(layers, -1, stubs)
    except Exception as e:
        return {"raised": repr(e), "A": list(A)}
    bad = [f for layer in out1.painted_layers for f in ps.unencodable_fields(layer)]
    if bad:
        return {"fields that do not fit their OT encoding": bad[:4], "A": list(A)}
    l1 = [lf for layer in out1.painted_layers for lf in ps.denote(layer)]
    l2 = [lf for layer in out2.painted_layers for lf in ps.denote(layer)]
    if len(l1) != len(l2):
        return {"layers": [len(l1), len(l2)]}
    a, b = l1[1], l2[1]
    reused = a.glyph == l1[0].glyph
    if reused:
        err = max(abs(float(x) - float(y)) for x, y in zip(a.M, tuple(A)))
        if err > float(TOL) + 1e-9:
            return {"placement of reused outline": [list(map(float, a.M)), list(A)], "err": err}
    elif outline(ufo1, a.glyph) != outline(ufo2, b.glyph):
        return {"un-reused outline differs": True}
    fa, fb = a.fill, b.fill
    if fa[0] != fb[0]:
        return {"fill kind": [fa[0], fb[0]]}
    if fa[0] == "linear":
        worst = 0.0
        for q in ((0.0, 0.0), (500.0, 0.0), (0.0, 500.0), (300.0, 700.0)):
            n1, d1 = ps.linear_t(*fa[1:4], q)
            n2, d2 = ps.linear_t(*fb[1:4], q)
            if abs(d1) > 1e-6 and abs(d2) > 1e-6:
                worst = max(worst, abs(n1 / d1 - n2 / d2))
        if worst > 1e-3:
            return {"linear gradient differs at probes by t=": worst, "reuse": repr(out1.painted_layers[1])[:400]}
    if fa[0] == "radial":
        import math

        c0, r0, c1, r1, M1 = fa[1:6]
        d0, s0, d1, s1, M2 = fb[1:6]
        M1 = tuple(float(x) for x in M1)
        M2 = tuple(float(x) for x in M2)
        if abs(M1[0] * M1[3] - M1[1] * M1[2]) > 1e-9:
            # fb under M2 (no-reuse) vs fa under M1: N = M1^-1 ∘ M2 must map b-circles onto a-circles
            Mi = tuple(Affine2D(*M1).inverse())
            N = ps.mul(Mi, M2)
            k = math.hypot(N[0], N[1])
            errs = [abs(math.hypot(N[2], N[3]) - k), abs(N[0] * N[2] + N[1] * N[3]),
                    abs(ps.apply(N, d0)[0] - c0[0]), abs(ps.apply(N, d0)[1] - c0[1]), abs(ps.apply(N, d1)[0] - c1[0]), abs(ps.apply(N, d1)[1] - c1[1]),
                    abs(r0 - k * s0), abs(r1 - k * s1)]
            scale = max(1.0, k, abs(c0[0]), abs(c0[1]), abs(c1[0]), abs(c1[1]), abs(r1))
            if max(errs) > 1e-3 * scale:
                return {"radial gradient differs": errs, "reuse": repr(out1.painted_layers[1])[:500]}
    return None


def job_migrate(jc):
    jc.encode(WF._migrate_paths_to_ufo_glyphs, GR.GlyphReuseCache.try_reuse, GR.GlyphReuseCache.add_glyph, P.PaintLinearGradient.apply_transform,
              P.PaintRadialGradient.apply_transform, fixed.fixed_safe)
    kind = jc.params["paint"]

    def body():
        A = RC.sym_affine("A")
        paint = RC.PAINTS[kind]()
        layers = [P.PaintGlyph(glyph=RC.DONOR, paint=RC.paint_solid()), P.PaintGlyph(glyph=RC.TARGET, paint=paint)]
        stubs = RC.ReuseStubs(lambda d: "shape", lambda a, b: A)
        ufo1, out1 = migrate(layers, 0.1, stubs)
        ufo2, out2 = migrate(layers, -1, stubs)
        return A, ufo1, out1, ufo2, out2, stubs

    stubs0 = RC.ReuseStubs(lambda d: "shape", lambda a, b: None)
    from harness.C16_radial import Recorder

    from harness.C16_radial import stub_decompose_uniform

    rec = Recorder(stub_decompose_uniform)
    with RC.reuse_shims(stubs0), shims.installed([shims.Shim("nanoemoji.paint", "_decompose_uniform_transform", rec, "compositional: contract of _decompose_uniform_transform proved in C16 (radial job); recorded uniform part = witness similarity")]):
        results = None

        def body2():
            A = RC.sym_affine("A")
            paint = RC.PAINTS[kind]()
            layers = [P.PaintGlyph(glyph=RC.DONOR, paint=RC.paint_solid()), P.PaintGlyph(glyph=RC.TARGET, paint=paint)]
            stubs0.affine_for = lambda a, b: A
            stubs0.normalize_calls.clear()
            stubs0.affine_calls.clear()
            rec.calls.clear()
            from harness import C16_radial as _RS

            _RS.INVERSES.clear()
            ufo1, out1 = migrate(layers, 0.1, stubs0)
            calls = (list(stubs0.normalize_calls), list(stubs0.affine_calls))
            ufo2, out2 = migrate(layers, -1, stubs0)
            calls2 = (list(stubs0.normalize_calls), list(stubs0.affine_calls))
            uniforms = [c[2][0] for c in rec.calls]
            ainv = [Mi for M, Mi in _RS.INVERSES if all(core.as_term(x).get_id() == core.as_term(y).get_id() for x, y in zip(M, A))]
            return A, ufo1, out1, ufo2, out2, calls, calls2, (uniforms, ainv)

        results = jc.explore(body2, round_mode="identity", feas_timeout_ms=1500, catch=(AssertionError, ValueError, OverflowError, ZeroDivisionError), max_paths=4000)
    for r in results:
        inp = {"paint": kind}
        inp.update(inputs_of(r))
        if not jc.no_exception(r, inp, replay_migrate, f"C06:migrate:{kind}:raises"):
            continue
        A, ufo1, out1, ufo2, out2, calls, calls2, (uniforms, ainv) = r.value
        with core.post(r):
            l1 = [lf for layer in out1.painted_layers for lf in ps.denote(layer)]
            l2 = [lf for layer in out2.painted_layers for lf in ps.denote(layer)]
        key = f"C06:migrate:{kind}"
        if len(l1) != len(l2) or len(l1) != 2:
            jc.prove(r, z3.BoolVal(False), "same number of layers with and without reuse", inp, replay_migrate, key=key)
            continue
        with core.post(r):
            enc = z3.And(*[ps.encodable(layer, gradients=False) for layer in out1.painted_layers])
        jc.prove(r, enc, "every transform number in the reuse-enabled paint tree fits its OT field (Fixed / F2Dot14 / int16): the table still compiles", inp, replay_migrate, key=key + ":encodable")
        # disabling reuse must not consult picosvg at all, enabling passes tau/10 and tau
        wiring = calls2 == calls and all(abs(t - 0.01) < 1e-12 for t in calls[0]) and all(abs(t - 0.1) < 1e-12 for t in calls[1])
        jc.prove(r, z3.BoolVal(wiring), "tolerance -1 never consults picosvg; reuse passes tolerance/10 to normalize and tolerance to affine_between", inp, replay_migrate, key=key + ":tolerances")
        a0, b0 = l1[0], l2[0]
        jc.prove(r, z3.And(z3.BoolVal(a0.glyph == b0.glyph and a0.fill == b0.fill), ps.aff_eq(a0.M, b0.M)), "donor layer untouched", inp, replay_migrate, key=key)
        a, b = l1[1], l2[1]
        reused = a.glyph == a0.glyph
        jc.reach(r, "reused" if reused else "not reused")
        if reused:
            # contract: outline(target) = A(outline(donor)); the reused leaf must place the donor by A
            jc.prove(r, ps.aff_eq(a.M, tuple(A), TOL), "reused outline placed by the reuse affine (within 2^-14)", inp, replay_migrate, key=key)
        else:
            same = outline(ufo1, a.glyph) == outline(ufo2, b.glyph)
            jc.prove(r, z3.And(z3.BoolVal(same), ps.aff_eq(a.M, b.M)), "un-reused layer identical to the reuse-disabled build", inp, replay_migrate, key=key)
        with core.post(r):
            fa, fb = a.fill, b.fill
            if reused and ainv and fa[0] != "solid":
                # compare in donor space: (A∘Y)(g') == g  <=  Y(g') == A^-1(g), given A∘A^-1 = I (the inverse the
                # code itself computed is the witness; its defining constraint is part of the path)
                Ai = tuple(ainv[0])
                pg = out1.painted_layers[1]
                while not isinstance(pg, P.PaintGlyph):
                    pg = pg.paint
                fa = ps._fill(pg.paint, ps.IDENT, None)
                if fb[0] == "linear":
                    fb = ("linear",) + tuple(ps.apply(Ai, q) for q in fb[1:4]) + tuple(fb[4:])
                elif fb[0] == "radial":
                    fb = fb[:5] + (ps.mul(Ai, fb[5]),) + tuple(fb[6:])
            prop, extra = RC.fill_same(fa, fb, radial_candidates=[ps.IDENT] + [tuple(u) for u in uniforms])
        jc.prove(r, prop, "same colour at every point of the layer with and without reuse", inp, replay_migrate, key=key + ":colour", extra=extra, timeout_ms=60000)
        jc.sample(paint=kind, reused=reused, node=type(out1.painted_layers[1]).__name__)
    jc.expect_reached("reused", "not reused")


# ---------------------------------------------------------------- COLRv0 / glyf legs


def replay_v0(inp):
    """Concrete COLRv0 / glyf legs with the witness affine."""
    which = inp["which"]
    A = Affine2D(*[float(inp.get(f"A{i}", (1, 0, 0, 1, 0, 0)[i])) for i in range(6)])
    if abs(A.determinant()) < 1e-2:
        return None
    stubs = RC.ReuseStubs(lambda d: "shape", lambda a, b: A)
    palette = [Color(0, 0, 0, 1.0), Color(10, 20, 30, 0.75), Color(9, 9, 9, 1.0)]
    layers = [P.PaintGlyph(glyph=RC.DONOR, paint=RC.paint_solid()), P.PaintGlyph(glyph=RC.TARGET, paint=P.PaintSolid(color=Color(9, 9, 9, 1.0)))]
    ufo = RC.mk_ufo()
    safe = fixed.fixed_safe(*A)
    try:
        with RC.reuse_shims(stubs, stub_transformed=False, stub_algebra=False):
            if which == "colr0":
                cache = GR.GlyphReuseCache(0.1)
                cg = WF._migrate_paths_to_ufo_glyphs(RC.mk_color_glyph(ufo, "base", layers), cache)
                out = []
                for root in cg.painted_layers:
                    out += WF._colr0_layers(cg, root, palette)
            else:
                cfg = type("Cfg", (), {"reuse_tolerance": 0.1})()
                WF._glyf_ufo(cfg, ufo, (RC.mk_color_glyph(ufo, "base", layers), RC.mk_color_glyph(ufo, "other", [P.PaintGlyph(glyph=RC.OTHER, paint=RC.paint_solid())], gid=3)))
    except Exception as e:
        return {"raised": repr(e), "A": list(A)}
    want = tuple(A) if safe else ps.IDENT
    if which == "colr0":
        if len(out) != 2:
            return {"layers": out}
        gname, cidx = out[1]
        g = ufo[gname]
        if palette[cidx] != Color(9, 9, 9, 1.0) or palette[out[0][1]] != Color(10, 20, 30, 0.75):
            return {"colour indices": out}
        if safe and not (A == Affine2D.identity()):
            if len(g.components) != 1 or g.components[0].baseGlyph != out[0][0]:
                return {"reused layer is not a composite of the donor": gname, "components": [c.baseGlyph for c in g.components], "A": list(A)}
            got = tuple(g.components[0].transformation)
            if max(abs(x - y) for x, y in zip(got, want)) > float(TOL) + 1e-9:
                return {"component transform": list(got), "reuse affine": list(A)}
        return None
    comps = list(ufo["base"].components)
    if len(comps) != 2 or len(ufo["base"]):
        return {"components": len(comps), "contours": len(ufo["base"])}
    got = tuple(comps[1].transformation)
    if comps[1].baseGlyph == comps[0].baseGlyph:
        if max(abs(x - y) for x, y in zip(got, tuple(A))) > float(TOL) + 1e-9:
            return {"component transform": list(got), "reuse affine": list(A)}
    elif max(abs(x - y) for x, y in zip(got, ps.IDENT)) > 1e-9:
        return {"un-reused component transform": list(got)}
    return None


def job_colr0(jc):
    """_colr0_layers and the component loop of _glyf_ufo on a reused tree: the transformed context
    yields a composite glyph / component carrying the same affine the COLRv1 tree denotes."""
    jc.encode(WF._colr0_layers, WF._create_transformed_glyph, WF._glyf_ufo, P.Paint.breadth_first)
    which = jc.params["which"]
    inp = {f"A{i}": core.SymNum(z3.Real(f"A{i}")) for i in range(6)}
    inp["which"] = which
    stubs0 = RC.ReuseStubs(lambda d: "shape", lambda a, b: None)
    palette = [Color(0, 0, 0, 1.0), Color(10, 20, 30, 0.75), Color(9, 9, 9, 1.0)]

    def body():
        A = RC.sym_affine("A")
        stubs0.affine_for = lambda a, b: A
        layers = [P.PaintGlyph(glyph=RC.DONOR, paint=RC.paint_solid()), P.PaintGlyph(glyph=RC.TARGET, paint=P.PaintSolid(color=Color(9, 9, 9, 1.0)))]
        ufo = RC.mk_ufo()
        if which == "colr0":
            cache = GR.GlyphReuseCache(0.1)
            cg = WF._migrate_paths_to_ufo_glyphs(RC.mk_color_glyph(ufo, "base", layers), cache)
            out = []
            for root in cg.painted_layers:
                out += WF._colr0_layers(cg, root, palette)
            return A, ufo, cg, out
        cfg = type("Cfg", (), {"reuse_tolerance": 0.1})()
        cg0 = RC.mk_color_glyph(ufo, "base", layers)
        cg_other = RC.mk_color_glyph(ufo, "other", [P.PaintGlyph(glyph=RC.OTHER, paint=RC.paint_solid())], gid=3)
        WF._glyf_ufo(cfg, ufo, (cg0, cg_other))
        return A, ufo, None, None

    with RC.reuse_shims(stubs0, stub_transformed=False, stub_algebra=False):
        results = jc.explore(body, max_paths=3000, catch=(AssertionError, ValueError))
    for r in results:
        if not jc.no_exception(r, inp, replay_v0, f"C06:{which}:raises"):
            continue
        A, ufo, cg, out = r.value
        if which == "colr0":
            jc.reach(r, "ok")
            with core.post(r):
                leaves = [lf for layer in cg.painted_layers for lf in ps.denote(layer)]
            conj = [z3.BoolVal(len(out) == len(leaves) == 2)]
            if len(out) == 2:
                for (gname, cidx), lf in zip(out, leaves):
                    g = ufo[gname]
                    if g.components:
                        comp = g.components[0]
                        conj.append(z3.BoolVal(len(g.components) == 1 and comp.baseGlyph == lf.glyph and not len(g)))
                        conj.append(ps.aff_eq(tuple(comp.transformation), lf.M, TOL))
                    else:
                        conj.append(z3.BoolVal(gname == lf.glyph))
                        conj.append(ps.aff_eq(ps.IDENT, lf.M, 0))
                    conj.append(z3.BoolVal(palette[cidx] == lf.fill[1]))
            jc.prove(r, z3.And(*conj), "COLRv0: one layer per shape in order; a reused shape becomes a composite glyph whose component transform is the reuse affine; colour from the palette",
                     inp, replay_v0, key="C06:colr0")
        else:
            jc.reach(r, "ok")
            base = ufo["base"]
            comps = list(base.components)
            conj = [z3.BoolVal(len(comps) == 2 and not len(base))]
            if len(comps) == 2:
                conj.append(ps.aff_eq(tuple(comps[0].transformation), ps.IDENT, 0))
                same_donor = comps[1].baseGlyph == comps[0].baseGlyph
                if same_donor:
                    conj.append(ps.aff_eq(tuple(comps[1].transformation), tuple(A), TOL))
                else:
                    conj.append(ps.aff_eq(tuple(comps[1].transformation), ps.IDENT, 0))
            jc.prove(r, z3.And(*conj), "glyf: every source outline placed exactly once as a component at its source position (reused: by the reuse affine)", inp, replay_v0, key="C06:glyf")
    jc.expect_reached("ok")


# ---------------------------------------------------------------- each glyph depends on its own placement only


def _glyph_outlines(specs, together):
    """specs: [(name, viewBox divisor k, user dx)] all drawing the SAME path data.  Migrate the glyphs into one
    UFO with one cache (`together`) or each into a UFO of its own; -> {name: outlines of the glyphs its layers use}.
    Reuse is disabled (-1): outlines must then simply be the path placed by the glyph's own viewBox -> font map."""
    from nanoemoji.color_glyph import ColorGlyph
    from picosvg.geometric_types import Rect

    path = "M120,120 L600,120 L600,480 L120,480 Z"
    out = {}
    ufo, cache = RC.mk_ufo(), GR.GlyphReuseCache(-1)
    for i, (name, k, dx) in enumerate(specs):
        if not together:
            ufo, cache = RC.mk_ufo(), GR.GlyphReuseCache(-1)
        g = ufo.newGlyph(name)
        g.width = RC.WIDTH
        svg = type("Svg", (), {"view_box": (lambda kk: (lambda self: Rect(0, 0, 1200 // kk, 1200 // kk)))(k)})()
        cg = ColorGlyph(ufo, "", "", name, 2 + i, (0x41 + i,), (P.PaintGlyph(glyph=path, paint=RC.paint_solid()),), svg, Affine2D(1, 0, 0, 1, dx, 0), None)
        res = WF._migrate_paths_to_ufo_glyphs(cg, cache)
        out[name] = [outline(ufo, lf.glyph) for layer in res.painted_layers for lf in ps.denote(layer)]
    return out


def replay_independent(inp):
    specs = [("g0", int(inp["k0"]), int(inp["dx0"])), ("g1", int(inp["k1"]), int(inp["dx1"]))]
    try:
        a, b = _glyph_outlines(specs, True), _glyph_outlines(specs, False)
    except Exception as e:
        return {"raised": repr(e)}
    if a != b:
        return {"glyphs (viewBox 1200/k, user dx)": specs, "outlines when built in one font": {k: str(v)[:200] for k, v in a.items()}, "outlines when built alone": {k: str(v)[:200] for k, v in b.items()},
                "problem": "a glyph's outline depends on which glyphs were built before it"}
    return None


def job_independent(jc):
    """Two glyphs with literally the same path data but different viewBox size / user shift (solver variables,
    forked): what each gets in a shared font equals what it gets alone."""
    jc.encode(WF._migrate_paths_to_ufo_glyphs)
    inp = {n: core.SymNum(z3.Int(n)) for n in ("k0", "k1", "dx0", "dx1")}

    def body():
        k0, k1 = core.integer("k0", 1, 3).concretize(), core.integer("k1", 1, 3).concretize()
        dx0, dx1 = core.integer("dx0", 0, 1).concretize() * 64, core.integer("dx1", 0, 1).concretize() * 64
        specs = [("g0", k0, dx0), ("g1", k1, dx1)]
        return _glyph_outlines(specs, True), _glyph_outlines(specs, False)

    results = jc.explore(body, max_paths=200)
    for r in results:
        if not jc.no_exception(r, inp, lambda i: replay_independent({**i, "dx0": int(i["dx0"]) * 64, "dx1": int(i["dx1"]) * 64}), "C06:independent:raises"):
            continue
        a, b = r.value
        jc.reach(r, "ok")
        jc.prove(r, z3.BoolVal(a == b), "a glyph's outlines do not depend on the glyphs built before it (same path data, different placement)", inp, _replay_independent_scaled, key="C06:independent")
    jc.expect_reached("ok")


def _replay_independent_scaled(inp):
    return replay_independent({**inp, "dx0": int(inp["dx0"]) * 64, "dx1": int(inp["dx1"]) * 64})



def jobs(tier):
    js = [Job(f"migrate[{k}]", job_migrate, paint=k) for k in (RC.QUICK_PAINTS if tier == "quick" else RC.PAINTS)]
    js.append(Job("colr0_layers[reused]", job_colr0, which="colr0"))
    js.append(Job("glyf_components[reused]", job_colr0, which="glyf"))
    js.append(Job("glyphs independent of build order", job_independent))
    # OT-SVG leg: the documents emitted with reuse (shared <use>/<defs>/gradients) render each source layer
    # exactly as the un-reused source (oracle = source layers), see harness/C02.py
    from harness import C02

    for sc in C02.SCENARIOS:
        if sc.startswith("reuse") or sc.startswith("two docs") or sc.startswith("one doc"):
            js.append(Job(f"otsvg docs[{sc}]", C02.job_docs, scenario=sc, affine="translation"))
    # obligations that discharge the contracts used above (paint.transformed, radial split)
    from harness import C16, C16_radial

    js.append(Job("contract:transformed", C16.job_transformed))
    js += [Job("contract:" + j.name, j.fn, **j.params) for j in C16_radial.jobs(tier)]
    return js


def main(tier):
    return run_property(
        "C06",
        jobs(tier),
        tier=tier,
        explanation="Metamorphic relation decided symbolically on the real migration code: reuse enabled (picosvg answering by contract with a symbolic affine) vs reuse disabled (-1) must denote the same leaves; plus the COLRv0 and glyf legs on the reused tree.",
        bounds={"reuse affine": "linear part [-4,4], translation [-4e4,4e4], |det| >= 0.01", "gradient geometry": "[-3e4,3e4] (reaches int16 overflow fallbacks)", "paints": "solid, linear, radial, PaintTransform over linear/radial",
                "shapes": "2 layers (donor + congruent copy); rounding shimmed to identity (algebraic stage)"},
        outside=["whether picosvg's affine_between honours its tolerance (contract)", "outline quantisation", "OT-SVG leg (in C02)"],
        assumptions=["affine_between contract: A maps the donor outline onto the target outline", "paint.transformed replaced by its contract proved in C16", "Affine2D.inverse/decompose_* as contract stubs on symbolic affines"],
        shims=["std + numeric shims", "glyph_reuse.normalize/affine_between -> contract stubs"],
        stubs=["SVG -> object with view_box()", "real ufoLib2.Font"],
        budget_s=900 if tier == "quick" else 3000,
    )
