"""C17: ambiguous or unusable input stops the build (the raising predicates, API level).

Palette index conflicts (C15 kernel), bitmap limits (C14 kernel), config sign constraints and master
source-set checks (config.load), gradient coordinate overflow (C16 kernel), duplicate glyph names
(C04 gid kernel), unknown spreadMethod / unsupported colour strings, non-uniform radial mapping in
the OT-SVG emitter.
"""
from __future__ import annotations

from fractions import Fraction
from pathlib import Path

import z3
from lxml import etree

from symx import core, shims
from symx.runner import Job, run_property

from nanoemoji import config as CFG
from nanoemoji import color_glyph as CG
from nanoemoji import svg as SVGMOD
from nanoemoji import paint as P
from nanoemoji.colors import Color
from picosvg.svg_transform import Affine2D
from picosvg.geometric_types import Point

MASTER_CASES = {
    "same sets": ([["/m/r/a.svg", "/m/r/b.svg"], ["/m/b/a.svg", "/m/b/b.svg"]], False),
    "duplicate name in first master": ([["/m/r/a.svg", "/m/r/x/a.svg"], ["/m/b/a.svg"]], True),
    "duplicate name in second master": ([["/m/r/a.svg", "/m/r/b.svg"], ["/m/b/a.svg", "/m/b/b.svg", "/m/b/alt/a.svg"]], True),
    "second master is a superset": ([["/m/r/a.svg"], ["/m/b/a.svg", "/m/b/b.svg"]], True),
    "second master is a subset": ([["/m/r/a.svg", "/m/r/b.svg"], ["/m/b/a.svg"]], True),
    "second master disjoint": ([["/m/r/a.svg"], ["/m/b/c.svg"]], True),
    "third master differs": ([["/m/r/a.svg"], ["/m/b/a.svg"], ["/m/c/a.svg", "/m/c/z.svg"]], True),
    # sources given on the command line (additional_srcs) take part in the same checks
    "command-line source repeats a name from the file": ([["/m/r/a.svg", "/m/r/b.svg"]], True, ["/cli/a.svg"]),
    "command-line sources repeat each other": ([["/m/r/a.svg"]], True, ["/cli/x/b.svg", "/cli/y/b.svg"]),
    "command-line source with a new name": ([["/m/r/a.svg"]], False, ["/cli/c.svg"]),
    "the same file given in the config and on the command line": ([["/m/r/a.svg"]], False, ["/m/r/a.svg"]),
}


def job_masters(jc):
    """config.load: masters whose source sets disagree (or repeat a name) must stop the build."""
    from harness.C10 import TomlStub, StubPath, Flags

    jc.encode(CFG.load)
    case = jc.params["case"]
    srcs, must_raise, *extra = MASTER_CASES[case]
    additional = tuple(Path(p) for p in extra[0]) if extra else None
    toml = TomlStub()
    names = ["regular", "bold", "black"]
    d = {"color_format": "glyf_colr_1", "axis": {"wght": {"name": "Weight", "default": 400}},
         "master": {names[i]: {"style_name": names[i].title(), "position": {"wght": 400 + 300 * i}, "srcs": s} for i, s in enumerate(srcs)}}
    dest = StubPath()
    dest.text = toml.dumps(d)
    raised = None
    with shims.installed([shims.Shim("nanoemoji.config", "toml", toml, "toml stub"), shims.Shim("nanoemoji.config", "FLAGS", Flags(), "absl FLAGS stub")]):
        try:
            CFG.load(dest, additional) if additional is not None else CFG.load(dest)
        except Exception as e:  # any exception stops the worker (NameError included)
            raised = e
    jc.paths += 1
    jc.q["total"] += 1
    jc.concrete_validations += 1
    if (raised is not None) != must_raise:
        jc.q["sat"] += 1
        jc.violation(f"C17:masters:{case}", "masters disagreeing on their source sets stop the build", {"case": case, "srcs": srcs},
                     {"raised": repr(raised), "expected_error": must_raise})
    else:
        jc.q["unsat"] += 1
        jc.sample(case=case, outcome=repr(raised))


BAD_GRADIENTS = {
    "unknown spreadMethod": '<linearGradient xmlns="http://www.w3.org/2000/svg" id="g" spreadMethod="mirror"><stop offset="0" stop-color="red"/></linearGradient>',
    "unsupported colour function": '<linearGradient xmlns="http://www.w3.org/2000/svg" id="g"><stop offset="0" stop-color="hsl(120, 100%, 50%)"/></linearGradient>',
    "bad hex length": '<linearGradient xmlns="http://www.w3.org/2000/svg" id="g"><stop offset="0" stop-color="#12345"/></linearGradient>',
    "rgb with 2 values": '<linearGradient xmlns="http://www.w3.org/2000/svg" id="g"><stop offset="0" stop-color="rgb(1,2)"/></linearGradient>',
}


def job_bad_fill(jc):
    jc.encode(CG._common_gradient_parts, CG._color_stop, Color.fromstring)
    name = jc.params["case"]
    el = etree.fromstring(BAD_GRADIENTS[name])
    inp = {"case": name, "op": core.SymNum(z3.Real("op"))}

    def body():
        return CG._common_gradient_parts(el, core.real("op", 0, 1))

    results = jc.explore(body, catch=(ValueError,))
    for r in results:
        jc.reach(r, "ValueError" if r.exc is not None else "accepted")
        jc.prove(r, z3.BoolVal(r.exc is not None), "an unsupported fill/gradient attribute raises ValueError for every shape opacity", inp, replay_bad_fill, key=f"C17:bad-fill:{name}")
    # plain fills
    for s in ("hsl(1,2,3)", "#GGHHII", "url(#missing", "", "rgb(1 2 3 4)"):
        try:
            Color.fromstring(s)
            jc.violation(f"C17:bad-fill:color:{s}", "unsupported colour string raises", {"string": s}, {"accepted": True})
        except ValueError:
            jc.concrete_validations += 1


def replay_bad_fill(inp):
    el = etree.fromstring(BAD_GRADIENTS[inp["case"]])
    try:
        out = CG._common_gradient_parts(el, float(inp["op"]))
    except ValueError:
        return None
    return {"accepted": repr(out)[:300]}


def replay_nonuniform(inp):
    g = lambda n: float(inp[n])
    paint = P.PaintRadialGradient(c0=Point(1.0, 2.0), c1=Point(3.0, 4.0), r0=0.0, r1=10.0)
    A = Affine2D(g("a"), 0, 0, g("d"), g("e"), g("f"))
    uniform = g("a") != 0 and abs(g("a")) == abs(g("d"))
    try:
        SVGMOD._map_gradient_coordinates(paint, A)
        raised = False
    except ValueError:
        raised = True
    if raised == uniform:
        return {"affine": list(A), "raised": raised, "uniform": uniform}
    return None


def job_nonuniform_radial(jc):
    """svg._map_gradient_coordinates: a radial gradient may only be mapped by a uniform scale
    (circles stay circles); anything else must raise rather than be mis-drawn."""
    jc.encode(SVGMOD._map_gradient_coordinates)
    inp = {n: core.SymNum(z3.Real(n)) for n in ("a", "d", "e", "f")}

    def body():
        a, d = core.real("a", -4, 4), core.real("d", -4, 4)
        A = Affine2D(a, 0, 0, d, core.real("e", -2000, 2000), core.real("f", -2000, 2000))
        paint = P.PaintRadialGradient(c0=Point(1.0, 2.0), c1=Point(3.0, 4.0), r0=0.0, r1=10.0)
        return SVGMOD._map_gradient_coordinates(paint, A)

    with shims.installed(shims.numeric_shims("nanoemoji.svg") + [shims.Shim("nanoemoji.svg", "round", core.sym_round, "robustness")]):
        results = jc.explore(body, catch=(ValueError,))
    a, d = z3.Real("a"), z3.Real("d")
    uniform = z3.And(a != 0, z3.Or(a == d, a == -d))
    for r in results:
        if r.exc is not None:
            jc.reach(r, "ValueError")
            jc.prove(r, z3.Not(uniform), "rejection only for non-uniform mappings", inp, replay_nonuniform, key="C17:radial-nonuniform:spurious")
        else:
            jc.reach(r, "ok")
            jc.prove(r, uniform, "a non-uniform mapping of a radial gradient is never accepted", inp, replay_nonuniform, key="C17:radial-nonuniform:accepted")
    jc.expect_reached("ok", "ValueError")


HEXDIGITS = "1A0f7c93Be5D"


def replay_hex_len(inp):
    from oracle import css_color

    n = int(inp["n"])
    sstr = "#" + HEXDIGITS[:n]
    legal = n in (3, 4, 6, 8)
    try:
        c = Color.fromstring(sstr, alpha=float(inp.get("alpha", 1)))
    except ValueError:
        return {"string": sstr, "rejected": True} if legal else None
    if not legal:
        return {"string": sstr, "accepted as": repr(c), "problem": f"{n} hex digits is not a CSS colour; the shape would be drawn with a substituted paint"}
    w = css_color.parse(sstr)
    if tuple(c[:3]) != w.rgb:
        return {"string": sstr, "parsed": list(c[:3]), "expected": list(w.rgb)}
    return None


def job_hex_len(jc):
    """Color.fromstring on '#' + n hex digits, n a solver variable in 1..12 (concretised by forking), caller alpha
    symbolic: accepted exactly for the CSS lengths 3, 4, 6, 8 -- anything else must raise, never be truncated."""
    from oracle import css_color

    jc.encode(Color.fromstring)
    inp = {"n": core.SymNum(z3.Int("n")), "alpha": core.SymNum(z3.Real("alpha"))}

    def body():
        n = core.integer("n", 1, 12).concretize()
        return n, Color.fromstring("#" + HEXDIGITS[:n], alpha=core.real("alpha", 0, 1))

    results = jc.explore(body, catch=(ValueError,))
    N = z3.Int("n")
    legal = z3.Or(N == 3, N == 4, N == 6, N == 8)
    for r in results:
        if r.exc is not None:
            jc.reach(r, "ValueError")
            jc.prove(r, z3.Not(legal), "a 3/4/6/8 digit hex colour is accepted", inp, replay_hex_len, key="C17:hex-length:spurious")
            continue
        n, c = r.value
        jc.reach(r, "accepted")
        ok = n in (3, 4, 6, 8) and tuple(c[:3]) == css_color.parse("#" + HEXDIGITS[:n]).rgb
        jc.prove(r, z3.And(legal, z3.BoolVal(ok)), "a hex colour with any other number of digits raises ValueError (never truncated to a different colour)", inp, replay_hex_len, key="C17:hex-length:accepted")
    jc.expect_reached("ValueError", "accepted")



# ---------------------------------------------------------------- write_font._inputs: every row gets its own files or the build stops


def _inputs_case(fmt, rows):
    """rows: [(has_svg, has_png)] -> list of (svg tag, png tag) the real _inputs yields; files are tags naming themselves"""
    from nanoemoji import write_font as WF
    from nanoemoji.glyphmap import GlyphMapping

    cfg = CFG.FontConfig()._replace(color_format=fmt)
    maps = []
    for i, (hs, hp) in enumerate(rows):
        if not (hs or hp):
            return "skip"
        maps.append(GlyphMapping(Path(f"s{i}.svg") if hs else None, Path(f"b{i}.png") if hp else None, (0x41 + i,), f"g{i}"))
    saved = (WF.SVG, WF.PNG)
    WF.SVG = type("SVGStub", (), {"parse": staticmethod(lambda p: ("svg", str(p)))})
    WF.PNG = type("PNGStub", (), {"read_from": staticmethod(lambda p: ("png", str(p)))})
    try:
        return [(g.svg_file, g.bitmap_file, g.svg, g.bitmap) for g in WF._inputs(cfg, maps)]
    finally:
        WF.SVG, WF.PNG = saved


def _inputs_verdict(fmt, rows, out):
    cfg = CFG.FontConfig()._replace(color_format=fmt)
    need_svg, need_png = cfg.has_svgs, cfg.has_bitmaps
    must_raise = any((need_svg and not hs) or (need_png and not hp) for hs, hp in rows)
    if isinstance(out, Exception):
        return None if must_raise else {"raised": repr(out)}
    if must_raise:
        return {"problem": "a row lacks a file this colour format needs, yet inputs were produced", "rows (has svg, has png)": rows, "inputs": [repr(o) for o in out]}
    for i, ((hs, hp), (sf, bf, svg, png)) in enumerate(zip(rows, out)):
        if (need_svg and svg != ("svg", f"s{i}.svg")) or (need_png and png != ("png", f"b{i}.png")) or (not need_png and png is not None) or (not need_svg and svg is not None):
            return {"row": i, "got": [repr(svg), repr(png)], "problem": "a glyph was given another row's source (or one it should not have)"}
    return None if len(out) == len(rows) else {"inputs": len(out), "rows": len(rows)}


def replay_inputs(inp):
    rows = [(bool(inp[f"svg{i}"]), bool(inp[f"png{i}"])) for i in range(inp["n"])]
    try:
        out = _inputs_case(inp["fmt"], rows)
    except (ValueError, IOError) as e:
        out = e
    if out == "skip":
        return None
    return _inputs_verdict(inp["fmt"], rows, out)


def job_inputs(jc):
    from nanoemoji import write_font as WF

    jc.encode(WF._inputs)
    fmt, n = jc.params["fmt"], jc.params["n"]
    inp = {"fmt": fmt, "n": n}
    for i in range(n):
        inp[f"svg{i}"], inp[f"png{i}"] = core.SymNum(z3.Int(f"svg{i}")), core.SymNum(z3.Int(f"png{i}"))

    def body():
        rows = [(core.integer(f"svg{i}", 0, 1).concretize() == 1, core.integer(f"png{i}", 0, 1).concretize() == 1) for i in range(n)]
        try:
            return rows, _inputs_case(fmt, rows)
        except (ValueError, IOError) as e:
            return rows, e

    results = jc.explore(body, max_paths=500)
    for r in results:
        if not jc.no_exception(r, inp, replay_inputs, "C17:inputs:raises"):
            continue
        rows, out = r.value
        if out == "skip":
            continue
        jc.reach(r, "stopped" if isinstance(out, Exception) else "ok")
        jc.prove(r, z3.BoolVal(_inputs_verdict(fmt, rows, out) is None), "a glyph map row without a file the format needs stops the build; otherwise every glyph gets exactly its own row's sources", inp, replay_inputs, key="C17:inputs")
    jc.expect_reached("ok", "stopped")


# ---------------------------------------------------------------- the driver fails when ninja fails


def _ninja_case(rc):
    import subprocess as real_sp
    import types
    from nanoemoji import ninja as NINJA

    def run(cmd, check=False, **kw):
        if check and rc != 0:
            raise real_sp.CalledProcessError(rc, cmd)
        return real_sp.CompletedProcess(cmd, rc)

    saved = (NINJA.subprocess, NINJA.FLAGS)
    NINJA.subprocess = types.SimpleNamespace(run=run, CalledProcessError=real_sp.CalledProcessError, CompletedProcess=real_sp.CompletedProcess)
    NINJA.FLAGS = types.SimpleNamespace(exec_ninja=True)
    try:
        NINJA.maybe_run_ninja(Path("/b/build.ninja"))
        return "returned"
    except real_sp.CalledProcessError:
        return "raised"
    finally:
        NINJA.subprocess, NINJA.FLAGS = saved


def replay_ninja(inp):
    rc = int(inp["rc"])
    out = _ninja_case(rc)
    if (out == "raised") != (rc != 0):
        return {"ninja exit status": rc, "maybe_run_ninja": out, "problem": "a failed build step must make the command fail (non-zero exit), not return normally"}
    return None


def job_ninja_status(jc):
    from nanoemoji import ninja as NINJA

    jc.encode(NINJA.maybe_run_ninja)
    inp = {"rc": core.SymNum(z3.Int("rc"))}

    def body():
        rc = core.integer("rc", 0, 255)
        return _ninja_case(rc)

    results = jc.explore(body)
    for r in results:
        if not jc.no_exception(r, inp, replay_ninja, "C17:ninja-status:raises"):
            continue
        jc.reach(r, r.value)
        jc.prove(r, (z3.Int("rc") != 0) == z3.BoolVal(r.value == "raised"), "maybe_run_ninja raises exactly when ninja exits non-zero (the failure of any build step reaches the command's exit status)", inp, replay_ninja, key="C17:ninja-status")
    jc.expect_reached("raised", "returned")



# ---------------------------------------------------------------- default glyph map: one row per source stem (duplicates stay visible)

GM_POOL = ["emoji_u1f600.svg", "1f600.svg", "emoji_u1f600.png", "1F600.svg", "emoji_u1f601.svg", "1f600.png", "emoji_u1f468_200d_1f469.svg", "1f468-200d-1f469.svg"]


def _gm_rows(files):
    import importlib
    import sys
    from absl import flags

    name = "nanoemoji.write_glyphmap"
    if name not in sys.modules:
        # the module defines an absl flag other modules define too; load it once with that flag pre-registered tolerated
        try:
            importlib.import_module(name)
        except flags.DuplicateFlagError:
            spec = importlib.util.find_spec(name)
            src = open(spec.origin).read().replace('flags.DEFINE_string("output_file"', 'flags.FLAGS.__dict__.get("_x") or (lambda *a, **k: None)("output_file"')
            mod = importlib.util.module_from_spec(spec)
            sys.modules[name] = mod
            exec(compile(src, spec.origin, "exec"), mod.__dict__)
    WG = sys.modules[name]
    return [(str(g.svg_file) if g.svg_file else None, str(g.bitmap_file) if g.bitmap_file else None, tuple(g.codepoints), g.glyph_name) for g in WG._glyphmappings(files)], WG


def _gm_verdict(files, rows):
    from pathlib import Path as _P

    stems = []
    for f in files:
        if _P(f).stem not in stems:
            stems.append(_P(f).stem)
    got_stems = [_P(r[0] or r[1]).stem for r in rows]
    if got_stems != stems:
        return {"input files": files, "rows (svg, png, code points, glyph name)": rows, "problem": "the glyph map must carry one row per distinct source stem; a source that shares its code points with another must stay visible so the build stops on the duplicate"}
    for r in rows:
        for f in (r[0], r[1]):
            if f is not None and f not in files:
                return {"row": r, "problem": "row names a file that was not given"}
    return None


def replay_glyphmap_rows(inp):
    files = [GM_POOL[int(inp[f"f{i}"])] for i in range(inp["n"])]
    if len(set(files)) != len(files):
        return None
    try:
        rows, _ = _gm_rows(files)
    except Exception as e:
        return {"files": files, "raised": repr(e)}
    return _gm_verdict(files, rows)


def job_glyphmap_rows(jc):
    n = jc.params["n"]
    _, WG = _gm_rows([GM_POOL[0]])
    jc.encode(WG._glyphmappings)
    inp = {"n": n}
    for i in range(n):
        inp[f"f{i}"] = core.SymNum(z3.Int(f"f{i}"))

    def body():
        idx = [core.integer(f"f{i}", 0, len(GM_POOL) - 1).concretize() for i in range(n)]
        if len(set(idx)) != n:
            return None
        files = [GM_POOL[k] for k in idx]
        return files, _gm_rows(files)[0]

    results = jc.explore(body, max_paths=2000)
    for r in results:
        if not jc.no_exception(r, inp, replay_glyphmap_rows, "C17:glyphmap-rows:raises"):
            continue
        if r.value is None:
            continue
        files, rows = r.value
        jc.reach(r, "ok")
        jc.prove(r, z3.BoolVal(_gm_verdict(files, rows) is None), "default glyph map: one row per distinct source stem, naming only the given files (two sources with the same code points both stay in)", inp, replay_glyphmap_rows, key="C17:glyphmap-rows")
    jc.expect_reached("ok")



def jobs(tier):
    from harness import C15, C14, C10, C16, C16_radial, C04_gid

    js = []
    for pattern in [(2, 2), (0, 0), (None, 3, 3), (1, None, 1), (0, 1, 0)]:
        js.append(Job(f"palette conflict[{pattern}]", C15.job_palette, pattern=pattern, gb=C15.gb_for(len(pattern), 0)))
    for h in (255, 256, 300):
        js.append(Job(f"bitmap limits[cbdt,h={h}]", C14.job_metrics, upem=1024, F=1200, h=h, mode="square", fmt="cbdt"))
    js.append(Job("bitmap limits[raise_if_too_big_for_cbdt]", C14.job_too_big))
    js.append(Job("config sign constraints[no flags]", C10.job_config, flags=(), masters=1))
    js.append(Job("config sign constraints[flag descender]", C10.job_config, flags=("descender",), masters=1))
    for case in MASTER_CASES:
        js.append(Job(f"masters[{case}]", job_masters, case=case))
    js.append(Job("gradient overflow[linear]", C16.job_linear))
    js.append(Job("gradient overflow[radial]", C16_radial.job_radial_overflow))
    js += C04_gid.jobs(tier)
    for case in BAD_GRADIENTS:
        js.append(Job(f"bad fill[{case}]", job_bad_fill, case=case))
    js.append(Job("radial non-uniform mapping (OT-SVG)", job_nonuniform_radial))
    js.append(Job("hex colour length", job_hex_len))
    for fmt in ("glyf_colr_1", "cbdt", "sbix", "picosvg"):
        for n in (1, 2, 3):
            js.append(Job(f"inputs[{fmt},n={n}]", job_inputs, fmt=fmt, n=n))
    js.append(Job("ninja exit status", job_ninja_status))
    for n in (2, 3):
        js.append(Job(f"glyphmap rows[n={n}]", job_glyphmap_rows, n=n))
    return js


def main(tier):
    return run_property(
        "C17",
        jobs(tier),
        tier=tier,
        explanation="Bounded symbolic execution of the predicates that must stop a build: palette index conflicts, bitmap/metric limits, config sign constraints, master source-set checks, gradient coordinate overflow, duplicate glyph names, unsupported fills, non-uniform radial mapping. Claim: the API raises exactly when it must.",
        bounds={"see": "C15/C14/C10/C16/C04 for the shared kernels", "masters": "7 source-set structures over 2-3 masters", "bad fills": "4 malformed gradient elements x symbolic opacity, 5 malformed colour strings"},
        outside=["exit status beyond maybe_run_ninja raising (absl app.run turning the exception into a status; the ninja binary propagating a failed step)", "'no freshly written font' (filesystem)", "unparseable XML (lxml)", "the glyph map CSV"],
        assumptions=["toml stub as in C10"],
        shims=["see shared kernels"],
        stubs=["see shared kernels"],
        budget_s=900 if tier == "quick" else 3000,
    )
