"""C10: the glyph mapping survives its CSV file (glyphmap.GlyphMapping.csv_line -> file -> glyphmap.load_from).

`csv` is a C extension.  The glyphmap module is loaded through the instrumenting loader from its current
source and runs against a pure-Python model of csv.writer / csv.reader (a port of CPython's _csv.c state
machines for the dialect options nanoemoji passes), so that file names can be strings of SYMBOLIC
characters: the solver decides, for every name of up to N characters, whether what is read back equals
what was written.  The model is validated in every run against the real csv module on all strings of
length <= 4 over the alphabet of characters the state machines distinguish (translator validation);
every counterexample is replayed through the real glyphmap module and the real csv.

Bounds: names of 1..3 (quick) / 1..4 (thorough) symbolic characters + a concrete suffix, each character any
code point >= U+0020 except the C1 controls U+007F..U+009F and surrogates (control characters -- NUL, CR, LF
-- are outside: a file name with a line break cannot be written to a line-oriented file at all).
"""
from __future__ import annotations

import io
import itertools

import z3

from symx import core, strings
from symx.strings import SymStr
from symx.runner import Job

from nanoemoji import glyphmap as GM

NUL = 0


# ------------------------------------------------------------------ csv model (port of Modules/_csv.c)


def _is(c, ch: str):
    """c == ch for a character code that may be symbolic (forks through SymBool)"""
    if isinstance(c, core.SymNum):
        return bool(core.SymBool(c.t == ord(ch)))
    return c == ord(ch)


def _chars(x):
    if isinstance(x, SymStr):
        return list(x.chars)
    return [ord(ch) for ch in x]


def _out(chars):
    """plain str when every character is concrete (what the real module would hand back)"""
    if all(not isinstance(c, core.SymNum) for c in chars):
        return "".join(chr(c) for c in chars)
    return SymStr(chars)


class ModelWriter:
    def __init__(self, f, delimiter=",", quotechar='"', lineterminator="\r\n", doublequote=True, **kw):
        if kw:
            raise core.HarnessError(f"csv.writer option not modelled: {sorted(kw)}")
        self.f, self.delimiter, self.quotechar, self.lineterminator, self.doublequote = f, delimiter, quotechar, lineterminator, doublequote

    def writerow(self, row):
        out = []
        row = list(row)
        for k, field in enumerate(row):
            if field is None:
                cs = []
            elif isinstance(field, (str, SymStr)):
                cs = _chars(field)
            elif hasattr(field, "symstr"):
                cs = _chars(field.symstr)
            else:
                cs = _chars(str(field))
            body, quoted = [], False
            for c in cs:
                special = _is(c, self.delimiter) or _is(c, self.quotechar) or any(_is(c, t) for t in self.lineterminator)
                if special:
                    if _is(c, self.quotechar):
                        if not self.doublequote:
                            raise core.HarnessError("doublequote=False not modelled")
                        body.append(ord(self.quotechar))
                    quoted = True
                body.append(c)
            if not cs and len(row) == 1:
                quoted = True  # a lone empty field is written as ""
            if k:
                out.append(ord(self.delimiter))
            if quoted:
                out += [ord(self.quotechar)] + body + [ord(self.quotechar)]
            else:
                out += body
        out += [ord(ch) for ch in self.lineterminator]
        self.f.write(_out(out))


class ModelReader:
    START_RECORD, START_FIELD, IN_FIELD, IN_QUOTED_FIELD, QUOTE_IN_QUOTED_FIELD, EAT_CRNL = range(6)

    def __init__(self, lines, delimiter=",", quotechar='"', skipinitialspace=False, doublequote=True, strict=False, **kw):
        if kw:
            raise core.HarnessError(f"csv.reader option not modelled: {sorted(kw)}")
        self.it = iter(lines)
        self.delimiter, self.quotechar, self.skip, self.doublequote, self.strict = delimiter, quotechar, skipinitialspace, doublequote, strict
        self.state = self.START_RECORD
        self.fields, self.field = [], []

    def __iter__(self):
        return self

    def _save(self):
        self.fields.append(_out(self.field))
        self.field = []

    def _eol(self, c):
        return c == "EOL" or _is(c, "\n") or _is(c, "\r")

    def _step(self, c):
        S = self
        if S.state == S.START_RECORD:
            if c == "EOL":
                return
            if _is(c, "\n") or _is(c, "\r"):
                S.state = S.EAT_CRNL
                return
            S.state = S.START_FIELD
        if S.state == S.START_FIELD:
            if S._eol(c):
                S._save()
                S.state = S.START_RECORD if c == "EOL" else S.EAT_CRNL
            elif _is(c, S.quotechar):
                S.state = S.IN_QUOTED_FIELD
            elif S.skip and _is(c, " "):
                pass
            elif _is(c, S.delimiter):
                S._save()
            else:
                S.field.append(c)
                S.state = S.IN_FIELD
        elif S.state == S.IN_FIELD:
            if S._eol(c):
                S._save()
                S.state = S.START_RECORD if c == "EOL" else S.EAT_CRNL
            elif _is(c, S.delimiter):
                S._save()
                S.state = S.START_FIELD
            else:
                S.field.append(c)
        elif S.state == S.IN_QUOTED_FIELD:
            if c == "EOL":
                pass
            elif _is(c, S.quotechar):
                S.state = S.QUOTE_IN_QUOTED_FIELD if S.doublequote else S.IN_FIELD
            else:
                S.field.append(c)
        elif S.state == S.QUOTE_IN_QUOTED_FIELD:
            if c != "EOL" and _is(c, S.quotechar):
                S.field.append(c)
                S.state = S.IN_QUOTED_FIELD
            elif c != "EOL" and _is(c, S.delimiter):
                S._save()
                S.state = S.START_FIELD
            elif S._eol(c):
                S._save()
                S.state = S.START_RECORD if c == "EOL" else S.EAT_CRNL
            elif not S.strict:
                S.field.append(c)
                S.state = S.IN_FIELD
            else:
                raise ModelCsvError(f"'{S.delimiter}' expected after '{S.quotechar}'")
        elif S.state == S.EAT_CRNL:
            if c == "EOL":
                S.state = S.START_RECORD
            elif _is(c, "\n") or _is(c, "\r"):
                pass
            else:
                raise ModelCsvError("new-line character seen in unquoted field - do you need to open the file with newline=''?")

    def __next__(self):
        self.fields, self.field = [], []
        self.state = self.START_RECORD
        while True:
            try:
                line = next(self.it)
            except StopIteration:
                if self.field or self.state == self.IN_QUOTED_FIELD:
                    if self.strict:
                        raise ModelCsvError("unexpected end of data")
                    self._save()
                    return self.fields
                raise
            for c in _chars(line):
                if not isinstance(c, core.SymNum) and c == NUL:
                    raise ModelCsvError("line contains NUL")
                self._step(c)
            self._step("EOL")
            if self.state == self.START_RECORD:
                return self.fields


class ModelCsvError(Exception):
    pass


class CsvModel:
    """what `csv` is bound to inside the instrumented glyphmap module"""

    Error = ModelCsvError
    QUOTE_MINIMAL, QUOTE_ALL, QUOTE_NONNUMERIC, QUOTE_NONE = 0, 1, 2, 3

    @staticmethod
    def writer(f, **kw):
        return ModelWriter(f, **kw)

    @staticmethod
    def reader(lines, **kw):
        return ModelReader(lines, **kw)


# ------------------------------------------------------------------ environment stubs


class StubIO:
    def __init__(self):
        self.parts = []

    def write(self, s):
        self.parts.append(s)

    def getvalue(self):
        out = SymStr([])
        for p in self.parts:
            out = out + p
        return _out(out.chars)


class StubPath:
    """pathlib.Path stand-in that can hold a symbolic name"""

    def __init__(self, s):
        self.symstr = s.symstr if isinstance(s, StubPath) else SymStr.of(s)

    def __bool__(self):
        return True

    def __eq__(self, o):
        return isinstance(o, StubPath) and self.symstr == o.symstr

    def __hash__(self):
        return 0

    def __repr__(self):
        return f"StubPath({self.symstr!r})"


class StubFile:
    """a text file opened for reading: iteration yields '\\n'-terminated lines, read() the whole text"""

    def __init__(self, text):
        self.text = SymStr.of(text)

    def read(self):
        return self.text if not self.text.is_concrete() else self.text.concrete()

    def __iter__(self):
        cur = []
        for c in self.text.chars:
            cur.append(c)
            if _is(c, "\n"):
                yield _out(cur)
                cur = []
        if cur:
            yield _out(cur)


def instrumented():
    return strings.load_instrumented("nanoemoji.glyphmap", rebind={"csv": CsvModel, "StringIO": StubIO, "Path": StubPath})


# ------------------------------------------------------------------ translator validation

ALPHABET = ["a", ",", '"', " ", "\n", "\r", " "]


def validate_model(jc, maxlen=4):
    """model vs the real csv module: writer on every field string, reader on every line string, length <= maxlen"""
    import csv

    bad = 0
    for n in range(0, maxlen + 1):
        for tup in itertools.product(ALPHABET, repeat=n):
            s = "".join(tup)
            jc.concrete_validations += 1
            # writer, with the options glyphmap passes
            f = io.StringIO()
            csv.writer(f, lineterminator="").writerow([s, "", "x"])
            m = StubIO()
            ModelWriter(m, lineterminator="").writerow([s, "", "x"])
            if f.getvalue() != m.getvalue():
                bad += 1
                jc.inconclusive.append(f"csv model: writer differs from the real csv on {s!r}: {f.getvalue()!r} vs {m.getvalue()!r}")
            # reader, as glyphmap reads (a file iterates '\n'-terminated lines)
            text = s + ",z\n"
            try:
                want = list(csv.reader(io.StringIO(text), skipinitialspace=True))
            except csv.Error as e:
                want = ("error", str(e))
            try:
                got = [list(r) for r in ModelReader(StubFile(text), skipinitialspace=True)]
            except ModelCsvError as e:
                got = ("error", str(e))
            if want != got and not (isinstance(want, tuple) and isinstance(got, tuple)):
                bad += 1
                jc.inconclusive.append(f"csv model: reader differs from the real csv on {text!r}: {want!r} vs {got!r}")
            if bad > 3:
                return False
    return bad == 0


# ------------------------------------------------------------------ the round trip


def _domain(c):
    t = c.t
    return z3.And(t >= 0x20, t <= 0x10FFFF, z3.Or(t < 0x7F, t > 0x9F), z3.Or(t < 0xD800, t > 0xDFFF))


def replay_roundtrip(inp):
    """the real glyphmap module with the real csv and a real file"""
    import os
    import tempfile
    from pathlib import Path

    name = "".join(chr(int(c)) for c in inp["name"]) + inp["suffix"]
    rows = []
    for which in inp["fields"]:
        svg = Path(name) if which in ("svg", "both") else None
        bmp = Path(name[: -len(inp["suffix"])] + ".png") if which in ("bitmap", "both") else None
        rows.append(GM.GlyphMapping(svg, bmp, tuple(inp["cps"]), inp["glyph_name"]))
    rows.append(GM.GlyphMapping(Path("other.svg"), None, (0x42,), "B"))
    d = tempfile.mkdtemp()
    try:
        p = os.path.join(d, "glyphmap.csv")
        with open(p, "w") as f:
            for gm in rows:
                print(gm.csv_line(), file=f)
        try:
            back = GM.parse_csv(p)
        except Exception as e:
            return {"name": name, "lines": [gm.csv_line() for gm in rows], "raised": repr(e)}
    finally:
        import shutil

        shutil.rmtree(d, ignore_errors=True)
    if tuple(back) != tuple(rows):
        return {"name": name, "written": [repr(r) for r in rows], "read back": [repr(r) for r in back][:4], "lines": [gm.csv_line() for gm in rows]}
    return None


def job_roundtrip(jc):
    n, which, lead = jc.params["n"], jc.params["fields"], jc.params["lead"]
    g = instrumented()
    jc.encode(GM.GlyphMapping.csv_line, GM.load_from)
    if not validate_model(jc, 3 if jc.tier == "quick" else 4):
        return
    suffix, cps, gname = ".svg", (0x1F600, 0x200D), "g_1f600_200d"
    inp = {"name": [core.SymNum(z3.Int(f"ch{i}")) for i in range(n)], "suffix": suffix, "fields": [which], "cps": list(cps), "glyph_name": gname}

    def body():
        chars = [core.fresh_int(f"ch{i}") if False else core.integer(f"ch{i}", 0x20, 0x10FFFF) for i in range(n)]
        for c in chars:
            core.assume(core.SymBool(_domain(c)))
        # a name that starts with a space is a separate obligation (see known findings)
        core.assume(core.SymBool(chars[0].t == 0x20) if lead == "space" else core.SymBool(chars[0].t != 0x20))
        name = SymStr(chars) + suffix
        svg = StubPath(name) if which in ("svg", "both") else None
        bmp = StubPath(SymStr(chars) + ".png") if which in ("bitmap", "both") else None
        rows = [g.GlyphMapping(svg, bmp, cps, gname), g.GlyphMapping(StubPath("other.svg"), None, (0x42,), "B")]
        text = SymStr([])
        for gm in rows:
            text = text + gm.csv_line() + "\n"  # write_glyphmap prints one csv_line per mapping
        back = g.load_from(StubFile(text))
        return rows, back

    results = jc.explore(body, max_paths=6000, catch=(ValueError, ModelCsvError, IndexError))
    key = f"C10:glyphmap:roundtrip:{'leading-space' if lead == 'space' else 'name'}:{which}"
    for r in results:
        if not jc.no_exception(r, inp, replay_roundtrip, key + ":raises"):
            continue
        rows, back = r.value
        jc.reach(r, "ok")
        conj = [z3.BoolVal(len(back) == len(rows))]
        for a, b in zip(rows, back):
            for fa, fb in ((a.svg_file, b.svg_file), (a.bitmap_file, b.bitmap_file)):
                if (fa is None) != (fb is None):
                    conj.append(z3.BoolVal(False))
                elif fa is not None:
                    conj.append(fa.symstr.eq_term(fb.symstr))
            conj.append(z3.BoolVal(tuple(a.codepoints) == tuple(b.codepoints)))
            conj.append(SymStr.of(a.glyph_name).eq_term(SymStr.of(b.glyph_name)))
        jc.prove(r, z3.And(*conj), "the glyph mapping read back from its CSV file equals the one written (paths, glyph name, code points)", inp, replay_roundtrip, key=key)
    jc.expect_reached("ok")


def jobs(tier):
    js = []
    for n in (1, 2, 3) if tier == "quick" else (1, 2, 3, 4):
        for which in ("svg", "bitmap", "both"):
            if which != "svg" and n > 2:
                continue
            js.append(Job(f"glyphmap_csv[n={n},{which}]", job_roundtrip, n=n, fields=which, lead="other"))
    js.append(Job("glyphmap_csv[n=2,svg,leading space]", job_roundtrip, n=2, fields="svg", lead="space"))
    return js
