"""C16: specialised transform paints denote exactly the affine they replace.

Kernels (real code from /repo/src): paint.transformed, fixed.int16_safe/f2dot14_safe,
every Paint*.gettransform, PaintLinearGradient.apply_transform/check_overflows,
PaintRadialGradient.apply_transform/check_overflows, _decompose_uniform_transform.
"""
from __future__ import annotations

import math
from fractions import Fraction

import z3

from symx import core, shims
from symx.runner import Job, run_property
from oracle import paint_semantics as ps

from nanoemoji import paint as P
from nanoemoji import fixed
from nanoemoji.colors import Color
from picosvg.svg_transform import Affine2D
from picosvg.geometric_types import Point


# OpenType field ranges, stated here (not read from nanoemoji.fixed) so that a change to the code's constants cannot move the oracle
OT_MIN_INT16, OT_MAX_INT16, OT_MIN_UINT16, OT_MAX_UINT16 = -32768, 32767, 0, 65535
OT_MIN_F2DOT14, OT_MAX_F2DOT14 = Fraction(-2), Fraction(2**15 - 1, 2**14)

TOL = Fraction(1, 1 << 14)  # one F2Dot14 ulp
B = 40000  # beyond int16 and F2Dot14 limits

TARGET = P.PaintSolid(color=Color(1, 2, 3, 1.0))


def chain(res, stop):
    """Walk emitted transform paints down to `stop`; return (matrix, kinds)."""
    M = ps.IDENT
    kinds = []
    p = res
    while p is not stop:
        pm = ps.paint_matrix(p)
        if pm is None:
            raise core.HarnessError(f"unexpected node {type(p).__name__} in chain")
        M = ps.mul(M, pm)
        kinds.append(type(p).__name__)
        p = p.paint
    return M, kinds


def near_int16(v, eps=Fraction(1, 10**6)):
    """v is within eps of an integer and inside int16. Two syntactic witnesses for the
    integer (trunc(v), round-half-up(v)) so the solver can match the code's own term."""
    t = core.as_term(v)
    n1 = z3.ToReal(z3.If(t >= 0, z3.ToInt(t), -z3.ToInt(-t)))
    n2 = z3.ToReal(z3.ToInt(t + Fraction(1, 2)))
    near = z3.Or(z3.And(t - n1 <= eps, n1 - t <= eps), z3.And(t - n2 <= eps, n2 - t <= eps))
    return z3.And(near, t >= OT_MIN_INT16, t <= OT_MAX_INT16)


def in_f2dot14(v):
    t = core.as_term(v)
    return z3.And(t >= z3.RealVal(OT_MIN_F2DOT14), t <= z3.RealVal(OT_MAX_F2DOT14))


def field_ranges(p):
    """A2: the variant chosen can hold its fields."""
    k = type(p).__name__
    if k == "PaintTranslate":
        return z3.And(near_int16(p.dx), near_int16(p.dy))
    if k == "PaintScale":
        return z3.And(in_f2dot14(p.scaleX), in_f2dot14(p.scaleY))
    if k == "PaintScaleUniform":
        return in_f2dot14(p.scale)
    if k == "PaintScaleAroundCenter":
        return z3.And(in_f2dot14(p.scaleX), in_f2dot14(p.scaleY), near_int16(p.center[0]), near_int16(p.center[1]))
    if k == "PaintScaleUniformAroundCenter":
        return z3.And(in_f2dot14(p.scale), near_int16(p.center[0]), near_int16(p.center[1]))
    return z3.BoolVal(True)


# ---------------------------------------------------------------- concrete replays


def _concrete_chain(res, stop):
    M = ps.IDENT
    p = res
    while p is not stop:
        M = ps.mul(M, ps.paint_matrix(p))
        p = p.paint
    return M


def _concrete_field_ok(p):
    k = type(p).__name__

    def ni(v):
        return abs(v - round(v)) <= 1e-6 and -32768 <= v <= 32767

    def f2(v):
        return -2.0 <= v <= float(OT_MAX_F2DOT14)

    if k == "PaintTranslate":
        return ni(p.dx) and ni(p.dy)
    if k == "PaintScale":
        return f2(p.scaleX) and f2(p.scaleY)
    if k == "PaintScaleUniform":
        return f2(p.scale)
    if k == "PaintScaleAroundCenter":
        return f2(p.scaleX) and f2(p.scaleY) and ni(p.center[0]) and ni(p.center[1])
    if k == "PaintScaleUniformAroundCenter":
        return f2(p.scale) and ni(p.center[0]) and ni(p.center[1])
    return True


def replay_transformed(inp):
    T = [float(inp[f"t{i}"]) for i in range(6)]
    try:
        res = P.transformed(Affine2D(*T), TARGET)
    except Exception as e:
        return {"T": T, "raised": repr(e)}
    M = _concrete_chain(res, TARGET)
    err = max(abs(a - b) for a, b in zip(M, T))
    ok_fields = res is TARGET or _concrete_field_ok(res)
    if err > float(TOL) or not ok_fields:
        return {"T": T, "emitted": repr(res), "composed": list(M), "max_err": err, "fields_ok": ok_fields}
    return None


# ---------------------------------------------------------------- jobs


def job_transformed(jc):
    jc.encode(P.transformed, fixed.int16_safe, fixed.f2dot14_safe)
    # translator/shim validation on the repo's own test vectors
    _validate_transformed(jc)
    tol = jc.params.get("tol", TOL)

    def body():
        T = [core.real(f"t{i}", -B, B) for i in range(6)]
        res = P.transformed(Affine2D(*T), TARGET)
        return T, res

    with shims.installed(shims.std_shims()):
        results = jc.explore(body)
    Tn = [core.SymNum(z3.Real(f"t{i}")) for i in range(6)]
    for r in results:
        if not jc.no_exception(r, {f"t{i}": Tn[i] for i in range(6)}, replay_transformed, "C16:transformed:raises"):
            continue
        T, res = r.value
        M, kinds = chain(res, TARGET)
        cls = kinds[0] if kinds else "identity"
        jc.reach(r, cls)
        inputs = {f"t{i}": T[i] for i in range(6)}
        jc.prove(r, ps.aff_eq(M, T, tol), "A1 composed affine == T within 2^-14", inputs, replay_transformed,
                 key="C16:transformed:affine")
        if kinds:
            jc.prove(r, field_ranges(res), "A2 variant can hold its fields", inputs, replay_transformed,
                     key="C16:transformed:fields")
        jc.sample(kind=cls, decisions=len(r.decisions))
    jc.expect_reached(
        "identity", "PaintTranslate", "PaintScale", "PaintScaleUniform",
        "PaintScaleAroundCenter", "PaintScaleUniformAroundCenter", "PaintTransform",
    )


def _validate_transformed(jc):
    """Push paint_test.py's vectors through the unshimmed and the shimmed function."""
    vectors = _test_vectors_transformed()
    for T, target in vectors:
        want = P.transformed(T, target)

        def body():
            Ts = Affine2D(*[core.SymNum(z3.RealVal(Fraction(v))) for v in T])
            return P.transformed(Ts, target)

        with shims.installed(shims.std_shims()):
            res, st = core.explore(body)
        if len(res) != 1:
            raise core.HarnessError(f"shim validation: {len(res)} paths on concrete input {T}")
        got = res[0].value
        if type(got) is not type(want):
            raise core.HarnessError(f"shim validation mismatch for {T}: {got!r} vs {want!r}")
        if got is not target:
            Mg = ps.paint_matrix(got)
            Mw = ps.paint_matrix(want)
            for a, b in zip(Mg, Mw):
                av = _num(a)
                if abs(av - float(b)) > 1e-9:
                    raise core.HarnessError(f"shim validation value mismatch for {T}: {got!r} vs {want!r}")
        jc.concrete_validations += 1


def _num(v):
    if isinstance(v, core.SymNum):
        t = z3.simplify(v.t)
        if z3.is_int_value(t):
            return float(t.as_long())
        if z3.is_rational_value(t):
            return float(Fraction(t.numerator_as_long(), t.denominator_as_long()))
        raise core.HarnessError(f"non-constant {t}")
    return float(v)


def _test_vectors_transformed():
    """The parametrisation of tests/paint_test.py::test_transformed read from /repo/tests."""
    import ast, os

    path = "/repo/tests/paint_test.py"
    out = []
    try:
        src = open(path).read()
        tree = ast.parse(src)
        ns = {}
        exec(compile("from nanoemoji.paint import *\nfrom nanoemoji.colors import Color\nfrom picosvg.svg_transform import Affine2D\nfrom picosvg.geometric_types import Point\nfrom math import *\nimport pytest\n", "<v>", "exec"), ns)
        for node in ast.walk(tree):
            if isinstance(node, ast.FunctionDef) and node.name == "test_transformed":
                for dec in node.decorator_list:
                    if isinstance(dec, ast.Call) and len(dec.args) == 2:
                        vals = eval(compile(ast.Expression(dec.args[1]), "<v>", "eval"), ns)
                        for v in vals:
                            out.append((v[0], v[1]))
    except Exception:
        pass
    if not out:  # fall back to a fixed list if the test file moved
        out = [
            (Affine2D.identity(), TARGET),
            (Affine2D.identity().translate(5, 7), TARGET),
            (Affine2D(1.5, 0, 0, 1.5, 0, 0), TARGET),
            (Affine2D(1.5, 0, 0, 0.5, 0, 0), TARGET),
            (Affine2D(2, 0, 0, 1, -10, 0), TARGET),
            (Affine2D(1, 2, 3, 4, 5, 6), TARGET),
        ]
    return out


# A4 ------------------------------------------------------------------------------


def _mk_transform_paints():
    """(name, constructor from symbolic fields) for every non-variable transform paint."""
    r = core.real
    L = 40000

    def pt(n):
        return Point(r(n + "x", -L, L), r(n + "y", -L, L))

    return [
        ("PaintTransform", lambda: P.PaintTransform(transform=tuple(r(f"m{i}", -L, L) for i in range(6)), paint=TARGET)),
        ("PaintTranslate", lambda: P.PaintTranslate(paint=TARGET, dx=r("dx", -L, L), dy=r("dy", -L, L))),
        ("PaintScale", lambda: P.PaintScale(paint=TARGET, scaleX=r("sx", -L, L), scaleY=r("sy", -L, L))),
        ("PaintScaleAroundCenter", lambda: P.PaintScaleAroundCenter(paint=TARGET, scaleX=r("sx", -L, L), scaleY=r("sy", -L, L), center=pt("c"))),
        ("PaintScaleUniform", lambda: P.PaintScaleUniform(paint=TARGET, scale=r("s", -L, L))),
        ("PaintScaleUniformAroundCenter", lambda: P.PaintScaleUniformAroundCenter(paint=TARGET, scale=r("s", -L, L), center=pt("c"))),
        ("PaintRotate", lambda: P.PaintRotate(paint=TARGET, angle=r("ang", -720, 720))),
        ("PaintRotateAroundCenter", lambda: P.PaintRotateAroundCenter(paint=TARGET, angle=r("ang", -720, 720), center=pt("c"))),
        ("PaintSkew", lambda: P.PaintSkew(paint=TARGET, xSkewAngle=r("xs", -89, 89), ySkewAngle=r("ys", -89, 89))),
        ("PaintSkewAroundCenter", lambda: P.PaintSkewAroundCenter(paint=TARGET, xSkewAngle=r("xs", -89, 89), ySkewAngle=r("ys", -89, 89), center=pt("c"))),
    ]


def replay_gettransform(inp):
    kind = inp["kind"]
    f = {k: v for k, v in inp.items() if k != "kind"}
    g = lambda n, d=0.0: float(f.get(n, d))
    ctor = {
        "PaintTransform": lambda: P.PaintTransform(transform=tuple(g(f"m{i}") for i in range(6)), paint=TARGET),
        "PaintTranslate": lambda: P.PaintTranslate(paint=TARGET, dx=g("dx"), dy=g("dy")),
        "PaintScale": lambda: P.PaintScale(paint=TARGET, scaleX=g("sx"), scaleY=g("sy")),
        "PaintScaleAroundCenter": lambda: P.PaintScaleAroundCenter(paint=TARGET, scaleX=g("sx"), scaleY=g("sy"), center=Point(g("cx"), g("cy"))),
        "PaintScaleUniform": lambda: P.PaintScaleUniform(paint=TARGET, scale=g("s")),
        "PaintScaleUniformAroundCenter": lambda: P.PaintScaleUniformAroundCenter(paint=TARGET, scale=g("s"), center=Point(g("cx"), g("cy"))),
        "PaintRotate": lambda: P.PaintRotate(paint=TARGET, angle=g("ang")),
        "PaintRotateAroundCenter": lambda: P.PaintRotateAroundCenter(paint=TARGET, angle=g("ang"), center=Point(g("cx"), g("cy"))),
        "PaintSkew": lambda: P.PaintSkew(paint=TARGET, xSkewAngle=g("xs"), ySkewAngle=g("ys")),
        "PaintSkewAroundCenter": lambda: P.PaintSkewAroundCenter(paint=TARGET, xSkewAngle=g("xs"), ySkewAngle=g("ys"), center=Point(g("cx"), g("cy"))),
    }[kind]
    p = ctor()
    got = tuple(p.gettransform())
    want = ps.paint_matrix(p)
    scale = max(1.0, max(abs(float(x)) for x in want))
    err = max(abs(float(a) - float(b)) for a, b in zip(got, want))
    if err > 1e-9 * scale:
        return {"paint": repr(p), "gettransform": list(got), "spec": [float(x) for x in want], "err": err}
    return None


def job_gettransform(jc):
    kind = jc.params["kind"]
    ctor = dict(_mk_transform_paints())[kind]
    cls = getattr(P, kind)
    jc.encode(cls.gettransform)
    names = {}

    def body():
        p = ctor()
        for fld in p.__dataclass_fields__:
            v = getattr(p, fld)
            if fld == "paint":
                continue
            if fld == "center":
                names["cx"], names["cy"] = v[0], v[1]
            elif fld == "transform":
                for i, x in enumerate(v):
                    names[f"m{i}"] = x
            else:
                short = {"scaleX": "sx", "scaleY": "sy", "scale": "s", "angle": "ang", "xSkewAngle": "xs", "ySkewAngle": "ys"}.get(fld, fld)
                names[short] = v
        return p, p.gettransform()

    with shims.installed(shims.std_shims()):
        results = jc.explore(body)
    for r in results:
        p, got = r.value
        with core.post(r):
            want = ps.paint_matrix(p)
        jc.reach(r, kind)
        inputs = dict(names)
        inputs["kind"] = kind
        jc.prove(r, ps.aff_eq(tuple(got), want, 0), f"A4 {kind}.gettransform == spec matrix", inputs, replay_gettransform,
                 key=f"C16:gettransform:{kind}")
        jc.sample(kind=kind, matrix=[repr(x) for x in got])
    jc.expect_reached(kind)


def replay_to_ufo(inp):
    kind = inp["kind"]
    g = lambda n, d=0.0: float(inp.get(n, d))
    ctor = {
        "PaintTransform": lambda: P.PaintTransform(transform=tuple(g(f"m{i}") for i in range(6)), paint=TARGET),
        "PaintTranslate": lambda: P.PaintTranslate(paint=TARGET, dx=g("dx"), dy=g("dy")),
        "PaintScale": lambda: P.PaintScale(paint=TARGET, scaleX=g("sx"), scaleY=g("sy")),
        "PaintScaleAroundCenter": lambda: P.PaintScaleAroundCenter(paint=TARGET, scaleX=g("sx"), scaleY=g("sy"), center=Point(g("cx"), g("cy"))),
        "PaintScaleUniform": lambda: P.PaintScaleUniform(paint=TARGET, scale=g("s")),
        "PaintScaleUniformAroundCenter": lambda: P.PaintScaleUniformAroundCenter(paint=TARGET, scale=g("s"), center=Point(g("cx"), g("cy"))),
        "PaintRotate": lambda: P.PaintRotate(paint=TARGET, angle=g("ang")),
        "PaintRotateAroundCenter": lambda: P.PaintRotateAroundCenter(paint=TARGET, angle=g("ang"), center=Point(g("cx"), g("cy"))),
        "PaintSkew": lambda: P.PaintSkew(paint=TARGET, xSkewAngle=g("xs"), ySkewAngle=g("ys")),
        "PaintSkewAroundCenter": lambda: P.PaintSkewAroundCenter(paint=TARGET, xSkewAngle=g("xs"), ySkewAngle=g("ys"), center=Point(g("cx"), g("cy"))),
    }[kind]
    p = ctor()
    try:
        d = p.to_ufo_paint([TARGET.color])
        got = ps.ufo_paint_matrix(d)
    except Exception as e:
        return {"raised": repr(e)}
    want = ps.paint_matrix(p)
    if max(abs(float(a) - float(b)) for a, b in zip(got, want)) > 1e-9:
        return {"paint": repr(p), "dictionary handed to the COLR compiler": {k: v for k, v in d.items() if k != "Paint"}, "its matrix": [float(x) for x in got], "the paint's matrix": [float(x) for x in want]}
    return None


def job_to_ufo_paint(jc):
    """A5: the dictionary a transform paint hands to the COLR compiler (to_ufo_paint) denotes, read per the spec's
    format numbers and field names, the same matrix as the paint itself -- for every transform paint kind."""
    kind = jc.params["kind"]
    ctor = dict(_mk_transform_paints())[kind]
    jc.encode(getattr(P, kind).to_ufo_paint)
    names = {}

    def body():
        p = ctor()
        for fld in p.__dataclass_fields__:
            v = getattr(p, fld)
            if fld in ("paint", "format"):
                continue
            if fld == "center":
                names["cx"], names["cy"] = v[0], v[1]
            elif fld == "transform":
                for i, x in enumerate(v):
                    names[f"m{i}"] = x
            else:
                names[{"scaleX": "sx", "scaleY": "sy", "scale": "s", "angle": "ang", "xSkewAngle": "xs", "ySkewAngle": "ys"}.get(fld, fld)] = v
        return p, p.to_ufo_paint([TARGET.color])

    with shims.installed(shims.std_shims()):
        results = jc.explore(body)
    for r in results:
        inputs = dict(names)
        inputs["kind"] = kind
        if not jc.no_exception(r, inputs, replay_to_ufo, f"C16:to_ufo_paint:{kind}:raises"):
            continue
        p, d = r.value
        jc.reach(r, kind)
        with core.post(r):
            try:
                got = ps.ufo_paint_matrix(d)
                prop = ps.aff_eq(got, ps.paint_matrix(p), 0)
            except (KeyError, TypeError):
                prop = z3.BoolVal(False)
        jc.prove(r, prop, f"A5 {kind}.to_ufo_paint denotes the paint's own matrix (spec format number and field names)", inputs, replay_to_ufo, key=f"C16:to_ufo_paint:{kind}")
    jc.expect_reached(kind)


# A3 linear ------------------------------------------------------------------------


def replay_linear(inp):
    g = lambda n: float(inp[n])
    grad = P.PaintLinearGradient(p0=Point(g("p0x"), g("p0y")), p1=Point(g("p1x"), g("p1y")), p2=Point(g("p2x"), g("p2y")))
    T = Affine2D(*[g(f"t{i}") for i in range(6)])
    try:
        out = grad.apply_transform(T)
        exc = None
    except OverflowError as e:
        out, exc = None, e
    mapped = [T.map_point(p) for p in (grad.p0, grad.p1, grad.p2)]
    oob = any(not (-32768 <= c <= 32767) for p in mapped for c in p)
    if exc is not None:
        return None if oob else {"raised": repr(exc), "mapped": [list(p) for p in mapped]}
    if oob:
        return {"silently_accepted_out_of_range": [list(p) for p in (out.p0, out.p1, out.p2)]}
    # same colour at corresponding points
    worst = 0.0
    for q in ((0.0, 0.0), (100.0, 0.0), (0.0, 100.0)):
        n1, d1 = ps.linear_t(grad.p0, grad.p1, grad.p2, q)
        n2, d2 = ps.linear_t(out.p0, out.p1, out.p2, tuple(T.map_point(q)))
        if d1 == 0 or d2 == 0:
            continue
        worst = max(worst, abs(n1 / d1 - n2 / d2))
    if worst > 1e-6:
        return {"gradient": repr(grad), "T": list(T), "out": repr(out), "t_err": worst}
    return None


def job_linear(jc):
    jc.encode(P.PaintLinearGradient.apply_transform, P.PaintLinearGradient.check_overflows)
    L = jc.params.get("L", 40000)

    def body():
        r = core.real
        p0 = Point(r("p0x", -L, L), r("p0y", -L, L))
        p1 = Point(r("p1x", -L, L), r("p1y", -L, L))
        p2 = Point(r("p2x", -L, L), r("p2y", -L, L))
        T = Affine2D(*[r(f"t{i}", -B, B) for i in range(6)])
        grad = P.PaintLinearGradient(p0=p0, p1=p1, p2=p2)
        inputs = {"p0x": p0[0], "p0y": p0[1], "p1x": p1[0], "p1y": p1[1], "p2x": p2[0], "p2y": p2[1], **{f"t{i}": T[i] for i in range(6)}}
        out = grad.apply_transform(T)
        return grad, T, out, inputs

    # inputs are needed on exception paths too: rebuild them by name
    def named_inputs():
        d = {}
        for n in ("p0x", "p0y", "p1x", "p1y", "p2x", "p2y"):
            d[n] = core.SymNum(z3.Real(n))
        for i in range(6):
            d[f"t{i}"] = core.SymNum(z3.Real(f"t{i}"))
        return d

    with shims.installed(shims.std_shims()):
        results = jc.explore(body, catch=(OverflowError,))
    inp = named_inputs()
    p = [(inp["p0x"], inp["p0y"]), (inp["p1x"], inp["p1y"]), (inp["p2x"], inp["p2y"])]
    T = tuple(inp[f"t{i}"] for i in range(6))
    mapped = [ps.apply(T, q) for q in p]
    in_range = z3.And(*[z3.And(core.as_term(c) >= OT_MIN_INT16, core.as_term(c) <= OT_MAX_INT16) for q in mapped for c in q])
    for r in results:
        if r.exc is not None:
            jc.reach(r, "OverflowError")
            jc.prove(r, z3.Not(in_range), "A3 OverflowError only when a mapped coordinate is out of int16", inp, replay_linear,
                     key="C16:linear:overflow-spurious")
            continue
        grad, Ts, out, _ = r.value
        jc.reach(r, "ok")
        jc.prove(r, in_range, "A3 out-of-range coordinates never accepted silently", inp, replay_linear,
                 key="C16:linear:overflow-missed")
        jc.prove(r, ps.linear_same_under((grad.p0, grad.p1, grad.p2), (out.p0, out.p1, out.p2), tuple(Ts)),
                 "A3 same colour at corresponding points (linear)", inp, replay_linear, key="C16:linear:colour")
        jc.sample(out=[repr(c) for q in (out.p0, out.p1, out.p2) for c in q][:2])
    jc.expect_reached("ok", "OverflowError")


JOBS_QUICK = None


def jobs(tier):
    js = [Job("transformed", job_transformed)]
    for kind, _ in _mk_transform_paints():
        js.append(Job(f"gettransform[{kind}]", job_gettransform, kind=kind))
        js.append(Job(f"to_ufo_paint[{kind}]", job_to_ufo_paint, kind=kind))
    js.append(Job("linear.apply_transform", job_linear))
    from harness import C16_radial

    js += C16_radial.jobs(tier)
    # the two places that map gradient geometry through a transform: re-basing a gradient onto a reused outline
    # (write_font._migrate_paths_to_ufo_glyphs, incl. its overflow fallbacks) and the OT-SVG emitter's split into
    # mapped circles + gradientTransform (svg._apply_gradient_paint, incl. its gradient cache)
    from harness import C06, C02

    for k in ("linear", "radial", "transform>linear", "transform>radial"):
        js.append(Job(f"migrate[{k}]", C06.job_migrate, paint=k))
    for sc in C02.SCENARIOS:
        if "radial" in sc or "residual" in sc:
            js.append(Job(f"otsvg docs[{sc}]", C02.job_docs, scenario=sc, affine="translation"))
    # reading a compiled transform paint back (Paint.from_ot) must give the affine that was written
    from harness import C13

    for t in ("Transform>glyph>solid", "SkewAroundCenter>glyph>solid", "ScaleAroundCenter>glyph>solid", "RotateAroundCenter>glyph>solid"):
        js.append(Job(f"colr->svg[{t}]", C13.job_c13, template=t, viewbox="150off", npal=1))
    return js


def main(tier):
    return run_property(
        "C16",
        jobs(tier),
        tier=tier,
        explanation="Bounded symbolic execution of nanoemoji's transform encoder and gradient transform code on z3-backed proxies; oracle = COLR spec matrices and gradient colour functions.",
        bounds={"affine entries": f"[-{B}, {B}]", "tolerance": "2^-14 per matrix entry", "gradient coords": "[-40000, 40000]",
                "angles": "cos/sin/tan/radians as uninterpreted functions with c^2+s^2=1 and parity axioms"},
        outside=["IEEE-754 rounding of the <= ~60 double operations (argued < 1e-9, DESIGN 1.1)", "NaN/inf", "variable (Var*) paints", "PaintSweepGradient (not emitted by nanoemoji)"],
        assumptions=["float modelled as exact real", "picosvg decompose_scale/decompose_translation replaced by contract stubs in the radial job (validated concretely)"],
        shims=[s.describe() for s in shims.std_shims()],
        stubs=["Affine2D.decompose_scale -> contract stub (radial job)", "Affine2D.decompose_translation -> contract stub (radial job)"],
        budget_s=600 if tier == "quick" else 3000,
    )
