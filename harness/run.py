"""Entry point: python -m harness.run Cxx [--tier quick|thorough] [--replay file]"""
import argparse
import importlib
import json
import os
import sys


def main():
    ap = argparse.ArgumentParser()
    ap.add_argument("prop")
    ap.add_argument("--tier", default=os.environ.get("VERIF_TIER", "quick"), choices=["quick", "thorough"])
    ap.add_argument("--replay")
    a = ap.parse_args()
    try:
        from absl import logging as absl_logging

        absl_logging.set_verbosity(absl_logging.FATAL)
        absl_logging.set_stderrthreshold("fatal")
    except Exception:
        pass
    mod = importlib.import_module(f"harness.{a.prop}")
    if a.replay:
        with open(a.replay) as f:
            v = json.load(f)
        rmod = importlib.import_module(v.get("module") or f"harness.{a.prop}")
        detail = getattr(rmod, v["replay_fn"])(v["inputs"])
        if detail is not None:
            print(f"VIOLATION property={a.prop} replay={a.replay}")
            print(json.dumps(detail, default=repr)[:2000])
            sys.exit(1)
        print("replay: not reproduced on the current tree")
        sys.exit(0)
    sys.exit(mod.main(a.tier))


if __name__ == "__main__":
    main()
