"""Shared machinery for the reuse kernels (C01/K3, C06, C19): the real GlyphReuseCache and the
real write_font._migrate_paths_to_ufo_glyphs run with picosvg's normalize/affine_between
replaced by contract stubs (DESIGN 1.4):

  normalize(path, tol)            -> congruence-class token decided by the harness
  affine_between(donor, tgt, tol) -> a symbolic affine A (or None); contract: A maps the donor
                                     outline onto the target outline within tol

Everything else (try_reuse's -1 switch, fixed_safe guard, cache bookkeeping, the gradient
counter-transform, the overflow fallbacks, transformed()) is nanoemoji's real code.
"""
from __future__ import annotations

import contextlib
from fractions import Fraction

import ufoLib2
import z3

from symx import core, shims
from oracle import paint_semantics as ps
from harness import C16_radial as RS

from nanoemoji import write_font as WF
from nanoemoji import glyph_reuse as GR
from nanoemoji import paint as P
from nanoemoji.colors import Color
from nanoemoji.color_glyph import ColorGlyph
from picosvg.svg_transform import Affine2D
from picosvg.geometric_types import Rect, Point

ASC, DESC, WIDTH = 950, -250, 1200
VIEW_BOX = Rect(0, 0, 1200, 1200)  # scale 1: all floats exact

DONOR = "M100,100 L300,100 L300,300 L100,300 Z"
TARGET = "M500,500 L700,500 L700,700 L500,700 Z"
OTHER = "M0,0 L50,0 L0,80 Z"


class Norm:
    def __init__(self, d):
        self.d = d


class ReuseStubs:
    """Records how the cache calls picosvg and answers by contract."""

    def __init__(self, classes, affine_for):
        self.classes = classes  # path string (font space) -> class token; filled lazily by prefix
        self.affine_for = affine_for  # callable(donor_d, target_d) -> Affine2D | None
        self.normalize_calls = []
        self.affine_calls = []

    def normalize(self, svg_path, tolerance):
        self.normalize_calls.append(tolerance)
        return Norm(self.classes(svg_path.d))

    def affine_between(self, a, b, tolerance):
        self.affine_calls.append(tolerance)
        return self.affine_for(a.d, b.d)


def svg_stub():
    return type("Svg", (), {"view_box": lambda self: VIEW_BOX})()


def mk_color_glyph(ufo, name, layers, gid=2):
    if name not in ufo:
        g = ufo.newGlyph(name)
        g.width = WIDTH
    return ColorGlyph(ufo, "", "", name, gid, (0x41 + gid,), tuple(layers), svg_stub(), Affine2D.identity(), None)


def mk_ufo():
    ufo = ufoLib2.Font()
    ufo.info.ascender, ufo.info.descender, ufo.info.unitsPerEm = ASC, DESC, 1000
    ufo.newGlyph(".notdef")
    return ufo


def font_space(d: str) -> str:
    """SVG-space path -> font-space path exactly as _update_paint_glyph computes it."""
    from picosvg.svg_types import SVGPath
    from nanoemoji.color_glyph import map_viewbox_to_font_space

    t = map_viewbox_to_font_space(VIEW_BOX, ASC, DESC, WIDTH, Affine2D.identity())
    return SVGPath(d=d).apply_transform(t).d


@contextlib.contextmanager
def reuse_shims(stubs, stub_transformed=True, stub_algebra=True):
    sl = shims.std_shims() + shims.numeric_shims("nanoemoji.write_font", "nanoemoji.glyph_reuse", "nanoemoji.paint", "nanoemoji.fixed") + [
        shims.Shim("nanoemoji.glyph_reuse", "normalize", stubs.normalize, "picosvg normalize -> congruence-class contract stub"),
        shims.Shim("nanoemoji.glyph_reuse", "affine_between", stubs.affine_between, "picosvg affine_between -> symbolic affine contract stub"),
    ]
    if stub_transformed:
        sl += [shims.Shim("nanoemoji.write_font", "transformed", RS.stub_transformed, "compositional: contract proved in C16 (job transformed)"),
               shims.Shim("nanoemoji.paint", "transformed", RS.stub_transformed, "same")]
    saved = (Affine2D.decompose_scale, Affine2D.decompose_translation, Affine2D.inverse)
    try:
        with shims.installed(sl):
            if stub_algebra:
                Affine2D.decompose_scale = RS.stub_decompose_scale
                Affine2D.decompose_translation = RS.stub_decompose_translation
                Affine2D.inverse = RS.stub_inverse
            yield
    finally:
        Affine2D.decompose_scale, Affine2D.decompose_translation, Affine2D.inverse = saved


def sym_affine(prefix, lin=4, tr=40000, detmin=Fraction(1, 100)):
    A = Affine2D(*[core.real(f"{prefix}{i}", -lin if i < 4 else -tr, lin if i < 4 else tr) for i in range(6)])
    d = A.a * A.d - A.b * A.c
    core.assume(core.sym_or(d >= detmin, d <= -detmin))
    return A


# ---- paint templates for the reused layer (geometry in FONT space, as color_glyph produces it)

STOPS = (P.ColorStop(0.0, Color(255, 0, 0, 1.0)), P.ColorStop(1.0, Color(0, 0, 255, 0.5)))


def R(n, lo=-30000, hi=30000):
    return core.real(n, lo, hi)


def paint_solid():
    return P.PaintSolid(color=Color(10, 20, 30, 0.75))


def paint_linear():
    return P.PaintLinearGradient(stops=STOPS, p0=Point(R("p0x"), R("p0y")), p1=Point(R("p1x"), R("p1y")), p2=Point(R("p2x"), R("p2y")))


def paint_radial():
    return P.PaintRadialGradient(stops=STOPS, c0=Point(R("c0x"), R("c0y")), c1=Point(R("c1x"), R("c1y")), r0=R("r0", 0, 30000), r1=R("r1", 0, 30000))


def child_transform(translation=True):
    """The residual transform nanoemoji puts above a gradient (always invertible)."""
    t = tuple(core.real(f"ct{i}", -4 if i < 4 else -3000, 4 if i < 4 else 3000) if (i < 4 or translation) else 0 for i in range(6))
    d = t[0] * t[3] - t[1] * t[2]
    core.assume(core.sym_or(d >= Fraction(1, 100), d <= -Fraction(1, 100)))
    return t


def paint_xf_linear():
    return P.PaintTransform(transform=child_transform(translation=False), paint=paint_linear())


def paint_xf_linear_full():
    return P.PaintTransform(transform=child_transform(), paint=paint_linear())


def paint_xf_radial():
    return P.PaintTransform(transform=child_transform(translation=False), paint=paint_radial())


PAINTS = {"solid": paint_solid, "linear": paint_linear, "radial": paint_radial, "transform>linear": paint_xf_linear, "transform>radial": paint_xf_radial,
          "transform(+translation)>linear": paint_xf_linear_full}
QUICK_PAINTS = ["solid", "linear", "radial", "transform>linear", "transform>radial"]


def radial_same_witness(f1, f2, candidates, tol=Fraction(1, 10**6)):
    """(circles', M1) vs (circles, M2): there is a similarity U among `candidates` with
    M1∘U == M2 (within tol) that maps circle i onto circle' i exactly. Sufficient for equal colour
    fields; the candidates are the uniform parts the code itself computed (or the identity)."""
    c0p, r0p, c1p, r1p, M1 = f1
    c0, r0, c1, r1, M2 = f2
    alts = []
    for U in candidates:
        a, b, c, d, e, f = U
        k2 = a * a + b * b
        alts.append(z3.And(
            ps.aff_eq(ps.mul(M1, tuple(U)), M2, tol),
            core.eq_tol(a * a + b * b, c * c + d * d, 0), core.eq_tol(a * c + b * d, 0, 0),
            ps.pt_eq(ps.apply(tuple(U), c0), c0p), ps.pt_eq(ps.apply(tuple(U), c1), c1p),
            core.eq_tol(r0p * r0p, k2 * r0 * r0, 0), core.eq_tol(r1p * r1p, k2 * r1 * r1, 0),
            core.as_term(r0p) >= 0, core.as_term(r1p) >= 0))
    return z3.Or(*alts)


def fill_same(fa, fb, tol=0, radial_candidates=None):
    """Two oracle fills (paint_semantics._fill results) colour every point alike.
    Returns (prop, extra definitional constraints)."""
    if fa[0] != fb[0]:
        return z3.BoolVal(False), []
    if fa[0] == "solid":
        return z3.BoolVal(fa[1] == fb[1]), []
    if fa[0] == "linear":
        same_stops = fa[4] == fb[4] and fa[5] == fb[5]
        return z3.And(z3.BoolVal(same_stops), ps.linear_same(fa[1:4], fb[1:4], tol)), []
    same_stops = fa[6] == fb[6] and fa[7] == fb[7]
    if radial_candidates is not None:
        return z3.And(z3.BoolVal(same_stops), radial_same_witness(fa[1:6], fb[1:6], radial_candidates)), []
    prop, defs = ps.radial_same(fa[1:6], fb[1:6], tol)
    return z3.And(z3.BoolVal(same_stops), prop), defs
