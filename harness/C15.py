"""C15: the palette honours explicit indices and resolves every colour.

Kernels: colors.uniq_sort_cpal_colors, Color.index_from, Color.opaque, Color.is_current_color,
PaintSolid.to_ufo_paint, paint._ufoColorLine, palette construction of write_font._colr_ufo
(filter currentColor, opaque() for v1), write_font._colr0_layers' colour lookup.
"""
from __future__ import annotations

import itertools
from fractions import Fraction

import z3

from symx import core, shims
from symx.runner import Job, run_property

from nanoemoji import colors as C
from nanoemoji.colors import Color
from nanoemoji import paint as P
from picosvg.geometric_types import Point
from picosvg.svg_transform import Affine2D

BLACK = (0, 0, 0, 1, None)


def color_shims():
    return [shims.Shim("nanoemoji.colors.Color", "__hash__", None, "placeholder")]


class _ConstHash:
    """Color.__hash__ -> constant: legal (hash is an optimisation) and makes set()/dict
    fall back to the symbolic __eq__."""

    def __enter__(self):
        self.saved = Color.__hash__
        Color.__hash__ = lambda self: 7
        return self

    def __exit__(self, *a):
        Color.__hash__ = self.saved
        return False


def mk_colors(pattern, gb):
    """pattern: tuple of None|int palette indices (structure by explicit enumeration);
    red and alpha symbolic, green/blue concrete from `gb`."""
    cols = []
    for i, idx in enumerate(pattern):
        r = core.integer(f"r{i}", 0, 255)
        a = core.real(f"a{i}", 0, 1)
        g, b = gb[i]
        if g is None:
            g = core.integer(f"g{i}", 0, 255)
        if b is None:
            b = core.integer(f"b{i}", 0, 255)
        cols.append(Color(r, g, b, a, idx))
    return cols


def fields(c):
    return (c.red, c.green, c.blue, c.alpha, c.palette_index)


def eq_fields(x, y):
    """z3 equality of two colour field tuples (palette_index is concrete/None)."""
    if (x[4] is None) != (y[4] is None):
        return z3.BoolVal(False)
    conj = [core.as_term(a) == core.as_term(b) for a, b in zip(x[:4], y[:4])]
    if x[4] is not None:
        conj.append(core.as_term(x[4]) == core.as_term(y[4]))
    return z3.And(*conj)


def lt_rgba(x, y):
    """strict lexicographic (r,g,b,a) order."""
    xs, ys = [core.as_term(v) for v in x[:4]], [core.as_term(v) for v in y[:4]]
    disj = []
    for k in range(4):
        disj.append(z3.And(*[xs[j] == ys[j] for j in range(k)], xs[k] < ys[k]))
    return z3.Or(*disj)


def spec(inputs, result, raised):
    """Returns dict label -> z3 property for this path."""
    n = len(inputs)
    F = [fields(c) for c in inputs]
    conflict = z3.Or(*[
        z3.And(z3.BoolVal(True), z3.Not(eq_fields(F[i], F[j])))
        for i in range(n) for j in range(i + 1, n)
        if F[i][4] is not None and F[j][4] is not None and F[i][4] == F[j][4]
    ] or [z3.BoolVal(False)])
    if raised:
        return {"ValueError only on conflicting indices": conflict}
    props = {"no ValueError => no conflict": z3.Not(conflict)}
    R = [fields(c) for c in result]
    m = len(R)
    props["palette never empty"] = z3.BoolVal(m >= 1)
    # every input present
    props["every input colour is in the palette"] = z3.And(*[
        z3.Or(*[eq_fields(R[j], F[i]) for j in range(m)] or [z3.BoolVal(False)]) for i in range(n)
    ] or [z3.BoolVal(True)])
    # indexed at index
    props["indexed colour sits at its index"] = z3.And(*[
        (eq_fields(R[F[i][4]], F[i]) if F[i][4] < m else z3.BoolVal(False))
        for i in range(n) if F[i][4] is not None
    ] or [z3.BoolVal(True)])
    # length
    distinct = [z3.If(z3.Or(*[eq_fields(F[j], F[i]) for j in range(i)] or [z3.BoolVal(False)]), 0, 1) for i in range(n)]
    ndist = z3.Sum(*distinct) if distinct else z3.IntVal(0)
    maxidx = max([f[4] for f in F if f[4] is not None], default=-1)
    want_len = z3.If(ndist > maxidx + 1, ndist, z3.IntVal(maxidx + 1))
    want_len = z3.If(want_len < 1, z3.IntVal(1), want_len)
    props["length == max(#distinct, max index + 1, 1)"] = want_len == m
    # unindexed fill lowest free slots ascending, rest black
    explicit = {f[4] for f in F if f[4] is not None}
    free = [j for j in range(m) if j not in explicit]
    unidx = [i for i in range(n) if F[i][4] is None]
    udist = [z3.If(z3.Or(*[eq_fields(F[j], F[i]) for j in unidx if j < i] or [z3.BoolVal(False)]), 0, 1) for i in unidx]
    u = z3.Sum(*udist) if udist else z3.IntVal(0)
    conj = []
    for t, j in enumerate(free):
        isU = z3.Or(*[eq_fields(R[j], F[i]) for i in unidx] or [z3.BoolVal(False)])
        asc = z3.BoolVal(True) if t == 0 else lt_rgba(R[free[t - 1]], R[j])
        isB = eq_fields(R[j], BLACK)
        conj.append(z3.If(u > t, z3.And(isU, asc), isB))
    conj.append(u <= len(free))
    props["unindexed colours fill the lowest free slots in ascending RGBA order; gaps black"] = z3.And(*conj)
    return props


def _concrete_spec(cols):
    """Independent concrete reference (for replay)."""
    byidx = {}
    for c in cols:
        if c.palette_index is not None:
            if c.palette_index in byidx and byidx[c.palette_index] != c:
                return "conflict"
            byidx[c.palette_index] = c
    distinct = []
    for c in cols:
        if c not in distinct:
            distinct.append(c)
    m = max(len(distinct), max(byidx, default=-1) + 1, 1)
    res = [None] * m
    for k, c in byidx.items():
        res[k] = c
    un = sorted([c for c in distinct if c.palette_index is None], key=lambda c: (c.red, c.green, c.blue, c.alpha))
    it = iter(un)
    for j in range(m):
        if res[j] is None:
            res[j] = next(it, Color(0, 0, 0, 1.0))
    return res


def replay_palette(inp):
    pattern = inp["pattern"]
    gb = inp["gb"]
    cols = [Color(int(inp[f"r{i}"]), int(inp[f"g{i}"]) if gb[i][0] is None else gb[i][0], int(inp[f"b{i}"]) if gb[i][1] is None else gb[i][1],
                  float(inp[f"a{i}"]), pattern[i]) for i in range(len(pattern))]
    order = inp.get("order")
    if order:
        cols = [cols[i] for i in order]
    want = _concrete_spec(cols)
    try:
        got = C.uniq_sort_cpal_colors(cols)
    except ValueError as e:
        return None if want == "conflict" else {"colors": [repr(c) for c in cols], "raised": repr(e), "expected": [repr(c) for c in want]}
    except Exception as e:
        return {"colors": [repr(c) for c in cols], "raised": repr(e)}
    if want == "conflict":
        return {"colors": [repr(c) for c in cols], "expected": "ValueError (conflicting indices)", "got": [repr(c) for c in got]}
    if list(got) != list(want):
        return {"colors": [repr(c) for c in cols], "expected": [repr(c) for c in want], "got": [repr(c) for c in got]}
    return None


def job_palette(jc):
    jc.encode(C.uniq_sort_cpal_colors)
    pattern = jc.params["pattern"]
    gb = jc.params["gb"]
    n = len(pattern)
    inp = {"pattern": list(pattern), "gb": [list(x) for x in gb]}
    for i in range(n):
        inp[f"r{i}"] = core.SymNum(z3.Int(f"r{i}"))
        inp[f"a{i}"] = core.SymNum(z3.Real(f"a{i}"))
        if gb[i][0] is None:
            inp[f"g{i}"] = core.SymNum(z3.Int(f"g{i}"))
        if gb[i][1] is None:
            inp[f"b{i}"] = core.SymNum(z3.Int(f"b{i}"))

    def body():
        cols = mk_colors(pattern, gb)
        res = C.uniq_sort_cpal_colors(list(cols))
        return cols, res

    with _ConstHash():
        results = jc.explore(body, catch=(ValueError,), max_paths=60000)
    for r in results:
        if r.exc is not None and not isinstance(r.exc, ValueError):
            jc.no_exception(r, inp, replay_palette, f"C15:palette:raises")
            continue
        if r.exc is not None:
            def body2():
                return mk_colors(pattern, gb)
            # rebuild inputs by name (same z3 constants)
            cols = [Color(core.SymNum(z3.Int(f"r{i}")), inp.get(f"g{i}", gb[i][0]), inp.get(f"b{i}", gb[i][1]), core.SymNum(z3.Real(f"a{i}")), pattern[i]) for i in range(n)]
            props = spec(cols, None, True)
            jc.reach(r, "ValueError")
        else:
            cols, res = r.value
            props = spec(cols, res, False)
            jc.reach(r, "ok")
        for label, prop in props.items():
            jc.prove(r, prop, label, inp, replay_palette, key=f"C15:palette:{label.split()[0]}")
        if r.exc is None:
            jc.sample(pattern=list(pattern), result_len=len(r.value[1]))


def job_other_exceptions(jc):
    """IndexError/AssertionError inside uniq_sort_cpal_colors must be unreachable: run
    with a broad catch and require that only ValueError ever escapes."""
    jc.encode(C.uniq_sort_cpal_colors)
    pattern = jc.params["pattern"]
    gb = jc.params["gb"]
    inp = {"pattern": list(pattern), "gb": [list(x) for x in gb]}
    for i in range(len(pattern)):
        inp[f"r{i}"] = core.SymNum(z3.Int(f"r{i}"))
        inp[f"a{i}"] = core.SymNum(z3.Real(f"a{i}"))
        if gb[i][0] is None:
            inp[f"g{i}"] = core.SymNum(z3.Int(f"g{i}"))
            inp[f"b{i}"] = core.SymNum(z3.Int(f"b{i}"))

    def body():
        cols = mk_colors(pattern, gb)
        return C.uniq_sort_cpal_colors(list(cols))

    with _ConstHash():
        results = jc.explore(body, catch=(Exception,), max_paths=60000)
    for r in results:
        if r.exc is not None and not isinstance(r.exc, ValueError):
            jc.no_exception(r, inp, replay_palette, "C15:palette:internal-exception")
        else:
            jc.reach(r, "ok" if r.exc is None else "ValueError")


# ---- paint side: v1 alpha in the paint, opaque entry; v0 alpha in the entry; currentColor


def replay_solid(inp):
    pal = [Color(int(inp[f"pr{i}"]), 5, 6, 1.0) for i in range(inp["npal"])]
    col = Color(int(inp["r"]), 5, 6, float(inp["a"]))
    if col.opaque() not in pal:
        return None
    d = P.PaintSolid(color=col).to_ufo_paint(pal)
    j = d["PaletteIndex"]
    if not (0 <= j < len(pal)) or pal[j] != col.opaque() or d["Alpha"] != col.alpha:
        return {"color": repr(col), "palette": [repr(c) for c in pal], "ufo_paint": d}
    return None


def job_solid_v1(jc):
    jc.encode(P.PaintSolid.to_ufo_paint, Color.index_from, Color.opaque, Color.is_current_color)
    npal = jc.params["npal"]
    inp = {"npal": npal, "r": core.SymNum(z3.Int("r")), "a": core.SymNum(z3.Real("a"))}
    for i in range(npal):
        inp[f"pr{i}"] = core.SymNum(z3.Int(f"pr{i}"))

    def body():
        pal = [Color(core.integer(f"pr{i}", 0, 255), 5, 6, 1.0) for i in range(npal)]
        col = Color(core.integer("r", 0, 255), 5, 6, core.real("a", 0, 1))
        # v1 palettes hold opaque colours; the colour's opaque form is in the palette
        core.assume(core.SymBool(z3.Or(*[core.as_term(pal[i].red) == core.as_term(col.red) for i in range(npal)])))
        d = P.PaintSolid(color=col).to_ufo_paint(pal)
        return pal, col, d

    results = jc.explore(body, catch=(ValueError,))
    for r in results:
        if not jc.no_exception(r, inp, replay_solid, "C15:solid:raises"):
            continue
        pal, col, d = r.value
        jc.reach(r, "ok")
        j = d["PaletteIndex"]
        # j is a python int here (list.index returns a concrete position)
        prop = z3.And(core.as_term(pal[j].red) == core.as_term(col.red), core.as_term(d["Alpha"]) == core.as_term(col.alpha))
        jc.prove(r, prop, "v1: PaletteIndex points at the opaque colour, Alpha carries alpha", inp, replay_solid, key="C15:solid:v1")
    # currentColor -> 0xFFFF regardless of palette, alpha preserved
    cc = Color.current_color(alpha=0.25)
    d = P.PaintSolid(color=cc).to_ufo_paint([Color(0, 0, 0, 1.0)])
    if d["PaletteIndex"] != 0xFFFF or d["Alpha"] != 0.25:
        jc.violation("C15:solid:currentColor", "currentColor -> 0xFFFF", {"alpha": 0.25}, d)
    jc.concrete_validations += 1


class _PaletteGlyph:
    def __init__(self, cols):
        self._c = cols
        self.painted_layers = ()
        self.ufo_glyph_name = "g"

    def colors(self):
        return set(self._c)

    def transform_for_font_space(self):
        return None

    def mutating_traverse(self, m):
        return self


def _palette_case(version, c0, c1):
    """run the real write_font._colr_ufo on one stub glyph using c0, c1 and currentColor; -> the palette it built"""
    from nanoemoji import write_font as WF
    import ufoLib2

    cc = Color.current_color(alpha=0.5)
    ufo = ufoLib2.Font()
    captured = {}
    orig = C.Color.to_ufo_color
    cfg = type("Cfg", (), {"reuse_tolerance": 0.1, "clipbox_quantization": None, "upem": 1000})()
    real_uniq, real_mig, real_bounds = WF.uniq_sort_cpal_colors, WF._migrate_paths_to_ufo_glyphs, WF._bounds

    def rec(cols):
        res = real_uniq(cols)
        captured["pal"] = res
        return res

    WF.uniq_sort_cpal_colors = rec
    WF._migrate_paths_to_ufo_glyphs = lambda g, cache: g
    WF._bounds = lambda g, q=1: None
    Color.to_ufo_color = lambda self: (0, 0, 0, 0)
    try:
        WF._colr_ufo(version, cfg, ufo, (_PaletteGlyph([c0, c1, cc]),))
    finally:
        WF.uniq_sort_cpal_colors, WF._migrate_paths_to_ufo_glyphs, WF._bounds = real_uniq, real_mig, real_bounds
        Color.to_ufo_color = orig
    return captured["pal"]


def replay_colr_ufo_palette(inp):
    version = inp["version"]
    c0 = Color(int(inp["r0"]), 9, 9, float(inp["a0"]))
    c1 = Color(int(inp["r1"]), 9, 9, float(inp["a1"]))
    try:
        pal = _palette_case(version, c0, c1)
    except Exception as e:
        return {"raised": repr(e)}
    bad = []
    for c in (c0, c1):
        want = c if version == 0 else c.opaque()
        if not any(p.red == want.red and abs(p.alpha - want.alpha) < 1e-12 for p in pal):
            bad.append({"colour without a palette entry": repr(c)})
    if any(p.red < 0 for p in pal):
        bad.append("currentColor sentinel in the palette")
    if version == 1 and any(p.alpha != 1 for p in pal):
        bad.append("COLRv1 palette entry with alpha")
    return {"palette": [repr(p) for p in pal], "problems": bad} if bad else None


def job_colr_ufo_palette(jc):
    """The palette-construction lines of write_font._colr_ufo, run on a stub glyph list:
    v1 stores opaque entries, v0 keeps alpha; currentColor never enters the palette."""
    from nanoemoji import write_font as WF

    jc.encode(WF._colr_ufo)
    version = jc.params["version"]
    inp = {"version": version, "r0": core.SymNum(z3.Int("r0")), "r1": core.SymNum(z3.Int("r1")), "a0": core.SymNum(z3.Real("a0")), "a1": core.SymNum(z3.Real("a1"))}

    def body():
        c0 = Color(core.integer("r0", 0, 255), 9, 9, core.real("a0", 0, 1))
        c1 = Color(core.integer("r1", 0, 255), 9, 9, core.real("a1", 0, 1))
        return c0, c1, _palette_case(version, c0, c1)

    with _ConstHash():
        results = jc.explore(body, catch=(ValueError,))
    for r in results:
        if not jc.no_exception(r, inp, replay_colr_ufo_palette, f"C15:colr_ufo:v{version}:raises"):
            continue
        c0, c1, pal = r.value
        jc.reach(r, "ok")
        conj = []
        for c in (c0, c1):
            want_alpha = c.alpha if version == 0 else 1
            conj.append(z3.Or(*[z3.And(core.as_term(p.red) == core.as_term(c.red), core.as_term(p.alpha) == core.as_term(want_alpha)) for p in pal]))
        # currentColor sentinel (-1,-1,-1) never in the palette
        conj.append(z3.And(*[core.as_term(p.red) >= 0 for p in pal]))
        if version == 1:
            conj.append(z3.And(*[core.as_term(p.alpha) == 1 for p in pal]))
        jc.prove(r, z3.And(*conj), f"_colr_ufo v{version}: palette entries {'opaque' if version else 'carry alpha'}; currentColor excluded", inp, replay_colr_ufo_palette,
                 key=f"C15:colr_ufo:v{version}")
    jc.expect_reached("ok")


# ---- every colour resolves: palette built as _colr_ufo does, then each colour looked up


def _mk_concrete(inp):
    pattern, n = inp["pattern"], len(inp["pattern"])
    return [Color(int(inp[f"r{i}"]), 7, 7, float(inp[f"a{i}"]), pattern[i]) for i in range(n)]


def replay_resolve(inp):
    version = inp["version"]
    cols = _mk_concrete(inp)
    src = [c if version == 0 else c.opaque() for c in cols]
    try:
        pal = C.uniq_sort_cpal_colors(src)
    except ValueError:
        return None
    bad = []
    for c in cols:
        try:
            if version == 1:
                d = P.PaintSolid(color=c).to_ufo_paint(pal)
                j, alpha = d["PaletteIndex"], d["Alpha"]
            else:
                j, alpha = c.index_from(pal), None
        except Exception as e:
            bad.append({"color": repr(c), "raised": repr(e)})
            continue
        ok = 0 <= j < len(pal)
        if ok and c.palette_index is not None:
            ok = j == c.palette_index
        if ok:
            e = pal[j]
            ok = (e.red, e.green, e.blue) == (c.red, c.green, c.blue) and e.palette_index == c.palette_index
            ok = ok and (e.alpha == (c.alpha if version == 0 else 1.0))
        if ok and version == 1:
            ok = alpha == c.alpha
        if not ok:
            bad.append({"color": repr(c), "resolved_index": j, "palette": [repr(x) for x in pal]})
    return {"bad": bad} if bad else None


def job_resolve(jc):
    jc.encode(C.uniq_sort_cpal_colors, P.PaintSolid.to_ufo_paint, Color.index_from, Color.opaque)
    pattern, version = jc.params["pattern"], jc.params["version"]
    n = len(pattern)
    inp = {"pattern": list(pattern), "version": version}
    for i in range(n):
        inp[f"r{i}"] = core.SymNum(z3.Int(f"r{i}"))
        inp[f"a{i}"] = core.SymNum(z3.Real(f"a{i}"))

    def body():
        cols = mk_colors(pattern, gb_for(n, 0))
        src = [c if version == 0 else c.opaque() for c in cols]
        pal = C.uniq_sort_cpal_colors(src)
        out = []
        for c in cols:
            if version == 1:
                d = P.PaintSolid(color=c).to_ufo_paint(pal)
                out.append((d["PaletteIndex"], d["Alpha"]))
            else:
                out.append((c.index_from(pal), None))
        return cols, pal, out

    with _ConstHash():
        results = jc.explore(body, catch=(ValueError,), max_paths=60000)
    for r in results:
        if r.exc is not None:
            # conflict (legal) or "x not in list" (a colour failed to resolve: violation)
            if "already maps" in str(r.exc):
                jc.reach(r, "conflict")
                continue
            jc.no_exception(r, inp, replay_resolve, "C15:resolve:unresolved")
            continue
        cols, pal, out = r.value
        jc.reach(r, "ok")
        conj = []
        for c, (j, alpha) in zip(cols, out):
            if not isinstance(j, int) or not (0 <= j < len(pal)):
                conj.append(z3.BoolVal(False))
                continue
            e = pal[j]
            if c.palette_index is not None:
                conj.append(z3.BoolVal(j == c.palette_index))
            conj.append(z3.BoolVal(e.palette_index == c.palette_index))
            conj.append(core.as_term(e.red) == core.as_term(c.red))
            conj.append(core.as_term(e.alpha) == core.as_term(c.alpha if version == 0 else 1))
            if version == 1:
                conj.append(core.as_term(alpha) == core.as_term(c.alpha))
        jc.prove(r, z3.And(*conj), f"v{version}: every colour resolves to its own palette slot (declared index honoured; alpha in {'entry' if version == 0 else 'paint'})",
                 inp, replay_resolve, key=f"C15:resolve:v{version}")


# ---- Color.fromstring keeps the caller's alpha (concrete strings, symbolic alpha)

FROMSTRING_TEMPLATES = [
    ("#BCD", (0xBB, 0xCC, 0xDD), None, None),
    ("#F1E2D3", (0xF1, 0xE2, 0xD3), None, None),
    ("wheat", (0xF5, 0xDE, 0xB3), None, None),
    ("rgb(42 101 43)", (42, 101, 43), None, None),
    ("rgb(0, 256, -1)", (0, 255, 0), None, None),
    ("currentColor", (-1, -1, -1), None, None),
    ("var(--color0, red)", (255, 0, 0), 0, None),
    ("var(--color5, #ABCDEF)", (0xAB, 0xCD, 0xEF), 5, None),
    ("  var\t  ( --color1 ,   yellow ) ", (255, 255, 0), 1, None),
    # colours with their own alpha channel: it multiplies the caller's alpha (shape opacity)
    ("#F1E2D366", (0xF1, 0xE2, 0xD3), None, 0x66),
    ("#BCD3", (0xBB, 0xCC, 0xDD), None, 0x33),
    ("var(--color3, #00000080)", (0, 0, 0), 3, 0x80),
]


def replay_fromstring(inp):
    c = Color.fromstring(inp["s"], alpha=float(inp["alpha"]))
    want = float(inp["alpha"]) * (inp["own"] / 255 if inp.get("own") is not None else 1)
    if abs(c.alpha - want) > 1e-12 or tuple(c[:3]) != tuple(inp["rgb"]) or c.palette_index != inp["idx"]:
        return {"string": inp["s"], "alpha_in": inp["alpha"], "got": repr(c)}
    return None


def job_fromstring(jc):
    jc.encode(Color.fromstring)
    for s, rgb, idx, own in FROMSTRING_TEMPLATES:
        inp = {"s": s, "rgb": list(rgb), "idx": idx, "own": own, "alpha": core.SymNum(z3.Real("alpha"))}

        def body():
            return Color.fromstring(s, alpha=core.real("alpha", 0, 1))

        for r in jc.explore(body, catch=(ValueError,)):
            if not jc.no_exception(r, inp, replay_fromstring, "C15:fromstring:raises"):
                continue
            c = r.value
            jc.reach(r, s.strip()[:8])
            ok = tuple(c[:3]) == tuple(rgb) and c.palette_index == idx
            from fractions import Fraction

            want_alpha = z3.Real("alpha") * (z3.RealVal(Fraction(own, 255)) if own is not None else 1)
            jc.prove(r, z3.And(z3.BoolVal(ok), core.eq_tol(c.alpha, core.SymNum(want_alpha), Fraction(1, 10**12))),
                     "fromstring: rgb/index parsed, caller's alpha (shape opacity) preserved", inp, replay_fromstring, key="C15:fromstring:alpha")


# ---- ColorGlyph.colors(): every colour any node of the tree uses (the palette is built from it)


def _colors_tree(v):
    """three layers: solid glyph; transform > glyph with a 2-stop gradient; group-opacity composite (black backdrop with alpha)"""
    c = lambda n, g, b: Color(v(n + "r"), g, b, v(n + "a"))
    lin = P.PaintLinearGradient(stops=(P.ColorStop(0.0, c("s0", 1, 1)), P.ColorStop(1.0, c("s1", 2, 2))), p0=Point(0, 0), p1=Point(10, 0), p2=Point(0, 10))
    return (
        P.PaintGlyph(glyph="g0", paint=P.PaintSolid(c("f", 3, 3))),
        P.PaintTransform(transform=(1, 0, 0, 1, 5, 5), paint=P.PaintGlyph(glyph="g1", paint=lin)),
        P.PaintComposite(mode=P.CompositeMode.SRC_IN, source=P.PaintColrLayers((P.PaintGlyph(glyph="g2", paint=P.PaintSolid(c("h", 4, 4))),)),
                         backdrop=P.PaintSolid(Color(0, 0, 0, v("ga")))),
    )


def _colors_want(v):
    c = lambda n, g, b: (v(n + "r"), g, b, v(n + "a"))
    return [c("f", 3, 3), c("s0", 1, 1), c("s1", 2, 2), c("h", 4, 4), (0, 0, 0, v("ga"))]


_COLORS_NAMES = ["fr", "fa", "s0r", "s0a", "s1r", "s1a", "hr", "ha", "ga"]


def replay_glyph_colors(inp):
    from nanoemoji.color_glyph import ColorGlyph

    v = lambda n: (int(inp[n]) if n.endswith("r") else float(inp[n]))
    cg = ColorGlyph(None, "", "", "g", 2, (65,), _colors_tree(v), None, Affine2D.identity(), None)
    try:
        got = {tuple(c[:4]) for c in cg.colors()}
    except Exception as e:
        return {"raised": repr(e)}
    want = {tuple(w) for w in _colors_want(v)}
    if got != want:
        return {"colors() misses": sorted(want - got), "colors() adds": sorted(got - want)}
    return None


def job_glyph_colors(jc):
    from nanoemoji.color_glyph import ColorGlyph

    jc.encode(ColorGlyph.colors, ColorGlyph.traverse)
    inp = {n: core.SymNum(z3.Int(n) if n.endswith("r") else z3.Real(n)) for n in _COLORS_NAMES}

    def body():
        v = lambda n: core.integer(n, 0, 255) if n.endswith("r") else core.real(n, 0, 1)
        cg = ColorGlyph(None, "", "", "g", 2, (65,), _colors_tree(v), None, Affine2D.identity(), None)
        return list(cg.colors())

    with _ConstHash():
        results = jc.explore(body, max_paths=3000)
    V = lambda n: (z3.Int(n) if n.endswith("r") else z3.Real(n))
    want = _colors_want(V)
    for r in results:
        if not jc.no_exception(r, inp, replay_glyph_colors, "C15:glyph-colors:raises"):
            continue
        got = r.value
        jc.reach(r, "ok")
        same = lambda c, w: z3.And(core.as_term(c.red) == w[0], z3.BoolVal(c.green == w[1] and c.blue == w[2]) if not isinstance(c.green, core.SymNum) else core.as_term(c.green) == w[1], core.as_term(c.alpha) == w[3])
        conj = [z3.Or(*[same(c, w) for c in got]) if got else z3.BoolVal(False) for w in want]  # every colour of the tree is reported
        conj += [z3.Or(*[same(c, w) for w in want]) for c in got]  # and nothing else
        jc.prove(r, z3.And(*conj), "ColorGlyph.colors() is exactly the set of colours of the paint tree (fills, gradient stops, group-opacity backdrop)", inp, replay_glyph_colors, key="C15:glyph-colors")
    jc.expect_reached("ok")



def gb_for(n, variant):
    if variant == 2:
        return tuple((None, None) for _ in range(n))
    if variant == 0:
        return tuple((7, 7) for _ in range(n))
    return tuple((7 + i, 7) for i in range(n))


PLANS = {
    "quick": [(1, range(0, 6), (2,)), (2, range(0, 6), (2,)), (3, range(0, 6), (0, 1)), (3, range(0, 3), (2,))],
    "thorough": [(1, range(0, 6), (2,)), (2, range(0, 6), (2,)), (3, range(0, 6), (0, 1, 2)), (4, range(0, 4), (0, 1))],
    "probe4": [(4, range(0, 2), (0,))],
    "probe5": [(5, range(0, 1), (0,))],
    "probe3s": [(3, range(0, 1), (2,))],
}


def jobs(tier):
    js = []
    import os
    plan = PLANS[os.environ.get("C15_PLAN", tier)]
    for n, idxs, variants in plan:
        opts = [None] + list(idxs)
        for pattern in itertools.product(opts, repeat=n):
            for variant in variants:
                gb = gb_for(n, variant)
                js.append(Job(f"palette[n={n},{pattern},gb{variant}]", job_palette, pattern=pattern, gb=gb))
    # internal exceptions: broad catch on a sample of structures
    for pattern in [(None,), (5,), (None, 3), (2, 2), (None, None, 4), (0, None, 2)]:
        js.append(Job(f"internal-exc[{pattern}]", job_other_exceptions, pattern=pattern, gb=gb_for(len(pattern), 0)))
    rp = [None, 0, 1, 2]
    for n in (1, 2, 3) if tier == "quick" else (1, 2, 3, 4):
        for pattern in itertools.product(rp if n < 4 else [None, 0, 2], repeat=n):
            for version in (0, 1):
                js.append(Job(f"resolve[v{version},{pattern}]", job_resolve, pattern=pattern, version=version))
    js.append(Job("fromstring.alpha", job_fromstring))
    js.append(Job("solid.v1[npal=2]", job_solid_v1, npal=2))
    js.append(Job("solid.v1[npal=3]", job_solid_v1, npal=3))
    js.append(Job("colr_ufo.palette[v0]", job_colr_ufo_palette, version=0))
    js.append(Job("colr_ufo.palette[v1]", job_colr_ufo_palette, version=1))
    # explicit indices declared in the source (fills and gradient stops) must reach the paints
    from harness import C01_source

    from harness import C01

    js.append(Job("ufo_colr_layers", C01.job_ufo_layers))
    js.append(Job("glyph_colors", job_glyph_colors))  # palette indices written into the paints, currentColor -> 0xFFFF (fills and stops)
    for name in ("gradient stops with palette variables", "palette variable whose default has an alpha channel + shape opacity", "currentColor and palette variables"):
        js.append(Job(f"source[{name}|user identity]", C01_source.job_source, source=name, user="identity"))
    return js


def main(tier):
    return run_property(
        "C15",
        jobs(tier),
        tier=tier,
        explanation="Bounded symbolic execution of colors.uniq_sort_cpal_colors (and the palette/paint colour plumbing) with symbolic red and alpha per colour; palette-index structure enumerated explicitly; the specification pins every slot, so the result is a function of the input set (order independence follows).",
        bounds={"colours": "quick: n<=2 with indices None/0..5, n=3 with None/0..2; thorough: n=3 with None/0..5, n=4 with None/0..2",
                "components": "red symbolic int 0..255, alpha symbolic real 0..1, green/blue concrete (two variants: all equal / all distinct)"},
        outside=["5-6 colours (path count grows as set partitions x sort orders)", "symbolic green/blue (tuple comparison forks 4x per pair)", "Color.fromstring parsing (regex C code)"],
        assumptions=["Color.__hash__ replaced by a constant (hash is an optimisation; set/dict then use the symbolic __eq__)"],
        shims=["nanoemoji.colors.Color.__hash__ -> constant"],
        stubs=["ColorGlyph -> stub with colors() for the _colr_ufo palette lines", "_migrate_paths_to_ufo_glyphs/_bounds -> no-ops in that job"],
        budget_s=900 if tier == "quick" else 3400,
    )
