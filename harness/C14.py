"""C14: bitmap glyphs carry the right image at the right place (metrics, not bytes).

Kernels: bitmap_tables._ppem, _pixels_to_funits, _width_in_pixels, BitmapMetrics.create,
_nudge_into_range, _cbdt_bitmap_data, make_sbix_table, raise_if_too_big_for_cbdt,
make_cbdt_table (run splitting / offsets), color_glyph._advance_width.
"""
from __future__ import annotations

from fractions import Fraction

import z3

from symx import core, shims
from symx.runner import Job, run_property

from nanoemoji import bitmap_tables as BT
from nanoemoji import color_glyph as CG
from nanoemoji.config import FontConfig
from picosvg.geometric_types import Rect


class StubPNG:
    """PNG stand-in: only .size is consulted by the metrics code (Pillow is the C boundary)."""

    def __init__(self, w, h):
        self.size = (w, h)

    def __len__(self):
        return 1000


class StubGlyph:
    def __init__(self, gid, png, name=""):
        self.glyph_id = gid
        self.bitmap = png
        self.bitmap_filename = name or f"g{gid}.png"
        # the name in the UFO; the compiled font may call the glyph something else (keep_glyph_names off)
        self.ufo_glyph_name = f"ufo_name_of_{gid}"


class StubFont(dict):
    def getGlyphName(self, gid):
        return f"glyph{gid}"

    def getGlyphID(self, name):
        return int(name[5:])


def bt_shims():
    return [
        shims.Shim("nanoemoji.bitmap_tables", "float", core.sym_float, "float() is C"),
        shims.Shim("nanoemoji.bitmap_tables", "_INT8_RANGE", shims.SymRange(BT._INT8_RANGE), "range look-alike with symbolic __contains__, built from the live range"),
        shims.Shim("nanoemoji.bitmap_tables", "_UINT8_RANGE", shims.SymRange(BT._UINT8_RANGE), "same"),
    ]


def R(v):
    return z3.RealVal(Fraction(v))


def absz(t):
    return z3.If(t >= 0, t, -t)


def mk_config(upem, F, mode, h):
    asc = core.integer("asc", 0, F)
    desc = asc - F
    if mode == "square":
        w = h
        width = core.integer("width", 0, 4096)
    elif mode == "proportional":
        w = core.integer("w", 1, 255)
        width = 0
    else:  # fixed width, non-square
        w = core.integer("w", 1, 255)
        width = core.integer("width", 1, 4096)
    cfg = FontConfig()._replace(upem=upem, ascender=asc, descender=desc, width=width, bitmap_resolution=h, color_format="cbdt")
    return cfg, w


def spec_props(upem, F, h, mode, cfg, w, x_off, top, bottom, adv_px, ppem, nudged_y, A):
    """Properties in pixel space. top/bottom: bitmap box edges relative to baseline."""
    props = {}
    ppem_want = core.sym_round(core.SymNum(R(Fraction(upem * h, F))))
    props["ppem == round(upem * bitmap height / em height)"] = core.as_term(ppem) == core.as_term(ppem_want)
    s = Fraction(1, upem)
    ppem_t = core.as_term(ppem)
    asc_px = core.as_term(cfg.ascender) * ppem_t * R(s)
    desc_px = core.as_term(cfg.descender) * ppem_t * R(s)
    E = R(F) * ppem_t * R(s)
    slack = absz(E - h) / 2  # inherent: the bitmap is h px tall, the em box E px (ppem rounding)
    tol = z3.If(nudged_y, R(2), R(1)) + slack
    props["top edge within 1px (2 nudged) of scaled ascender"] = absz(core.as_term(top) - asc_px) <= tol
    props["bottom edge within 1px (2 nudged) of scaled descender"] = absz(core.as_term(bottom) - desc_px) <= tol
    # advance
    A_t = core.as_term(A)
    props_adv_tol = R(1) + A_t * absz(R(Fraction(h, F)) - ppem_t * R(s)) + R(Fraction(h, 2 * F))
    props["pixel advance matches the scaled font advance (±1px + ppem rounding)"] = absz(core.as_term(adv_px) - A_t * ppem_t * R(s)) <= props_adv_tol
    if mode in ("square", "proportional"):
        # bitmap centred in [0, advance]; 2px where the offset had to be nudged into int8
        ideal2 = core.as_term(adv_px) - core.as_term(w)  # twice the ideal offset
        nudged_x = z3.And(core.as_term(x_off) == 127, ideal2 > 254)  # "had to be nudged": the ideal offset itself exceeds int8
        props["bitmap horizontally centred in its advance (±1px, 2 nudged)"] = z3.Or(
            absz(2 * core.as_term(x_off) - ideal2) <= z3.If(nudged_x, 4, 2),
            core.as_term(x_off) > 127)  # unrepresentable offsets are passed on unwrapped (fontTools rejects them)
    return props


def _concrete_metrics(upem, F, h, asc, w, width, fmt):
    cfg = FontConfig()._replace(upem=upem, ascender=asc, descender=asc - F, width=width, bitmap_resolution=h, color_format=fmt)
    png = StubPNG(w, h)
    ppem = BT._ppem(cfg, h)
    m = BT.BitmapMetrics.create(cfg, png, ppem)
    adv_px = BT._width_in_pixels(cfg, png)
    return cfg, png, ppem, m, adv_px


def replay_metrics(inp):
    upem, F, h, mode, fmt = inp["upem"], inp["F"], inp["h"], inp["mode"], inp["fmt"]
    asc = int(inp["asc"])
    w = h if mode == "square" else int(inp["w"])
    width = 0 if mode == "proportional" else int(inp["width"])
    try:
        cfg, png, ppem, m, adv_px = _concrete_metrics(upem, F, h, asc, w, width, fmt)
    except (AssertionError, ValueError) as e:
        # rejection is legitimate only if the ideal offset does not fit int8 (after a 1px nudge) or res > 255
        cfg = FontConfig()._replace(upem=upem, ascender=asc, descender=asc - F, width=width, bitmap_resolution=h)
        ppem = round(upem * h / F)
        lh = round(F * ppem / upem)
        y_ideal = round(asc * ppem / upem - 0.5 * (lh - h))
        if h > 255 or not (-129 <= y_ideal <= 128):
            return None
        return {"spurious_rejection": repr(e), "y_ideal": y_ideal}
    if fmt == "sbix":
        font = StubFont()
        BT.make_sbix_table(cfg, font, [StubGlyph(3, png)])
        strike = list(font["sbix"].strikes.values())[0]
        if "glyph3" not in strike.glyphs or strike.glyphs["glyph3"].imageData is not png:
            return {"sbix strike keys": sorted(strike.glyphs), "the font calls glyph id 3": "glyph3", "problem": "the image is not filed under the font's name for its glyph id (it would be dropped when the table is compiled)"}
    if fmt == "cbdt":
        top, bottom = m.y_offset, m.y_offset - h
    else:
        bottom = m.line_ascent - m.line_height
        top = bottom + h
    s = ppem / upem
    E = F * s
    y_ideal = round(asc * s - 0.5 * (m.line_height - h))
    nudged = fmt == "cbdt" and not (-128 <= y_ideal <= 127)  # "had to be nudged": only an ideal outside int8 earns the second pixel
    tol = (2 if nudged else 1) + abs(E - h) / 2 + 1e-9
    bad = {}
    if ppem != round(upem * h / F):
        bad["ppem"] = ppem
    if abs(top - asc * s) > tol:
        bad["top"] = [top, asc * s, tol]
    if abs(bottom - (asc - F) * s) > tol:
        bad["bottom"] = [bottom, (asc - F) * s, tol]
    A = CG._advance_width(Rect(0, 0, w, h), cfg)  # the hmtx advance ColorGlyph.create assigns (real code)
    if fmt == "cbdt":
        adv_px = BT._cbdt_bitmap_data(cfg, m, png).metrics.Advance  # what is stored, not what was computed on the way
    if abs(adv_px - A * s) > 1 + A * abs(h / F - s) + h / (2 * F) + 1e-9:
        bad["advance"] = {"pixel advance": adv_px, "font advance (hmtx)": A, "scaled to ppem": A * s}
    if mode in ("square", "proportional") and m.x_offset <= 127 and abs(2 * m.x_offset - (adv_px - w)) > (4 if (m.x_offset == 127 and adv_px - w > 254) else 2):
        bad["x_offset"] = [m.x_offset, "expected about", (adv_px - w) / 2, "advance_px", adv_px, "bitmap width", w]
    if h > 255 or not (-128 <= m.y_offset <= 127):
        bad["accepted_out_of_range"] = [h, m.y_offset]
    if bad:
        bad["config"] = {"upem": upem, "ascender": asc, "descender": asc - F, "width": width, "bitmap_resolution": h, "png": [w, h], "format": fmt}
        return bad
    return None


STRIKE = [None]


def job_metrics(jc):
    jc.encode(BT.BitmapMetrics.create, BT._ppem, BT._width_in_pixels, BT._pixels_to_funits, BT._nudge_into_range, BT._cbdt_bitmap_data,
              BT.make_sbix_table, CG._advance_width)
    upem, F, h, mode, fmt = (jc.params[k] for k in ("upem", "F", "h", "mode", "fmt"))
    inp = {"upem": upem, "F": F, "h": h, "mode": mode, "fmt": fmt, "asc": core.SymNum(z3.Int("asc"))}
    if mode != "square":
        inp["w"] = core.SymNum(z3.Int("w"))
    if mode != "proportional":
        inp["width"] = core.SymNum(z3.Int("width"))

    def body():
        cfg, w = mk_config(upem, F, mode, h)
        png = StubPNG(w, h)
        if fmt == "cbdt":
            ppem = BT._ppem(cfg, h)
            m = BT.BitmapMetrics.create(cfg, png, ppem)
            data = BT._cbdt_bitmap_data(cfg, m, png)
            if data.imageData is not png:
                raise core.HarnessError("imageData is not the PNG object")
            mt = data.metrics
            A = CG._advance_width(Rect(0, 0, w, h), cfg)  # the hmtx advance ColorGlyph.create assigns
            # the strike as make_cbdt_table builds it for this one glyph
            strike, sdata = BT._make_cbdt_strike(cfg, StubFont(), BT.CBDT_HEADER_SIZE, [StubGlyph(5, png)])
            bst = strike.bitmapSizeTable
            core.note("strike")
            STRIKE[0] = (bst.ppemX, bst.ppemY, bst.hori.ascender, bst.hori.descender, bst.hori.widthMax, bst.startGlyphIndex, bst.endGlyphIndex,
                         strike.indexSubTables[0].imageSize, sdata["glyph5"].metrics.Advance, sdata["glyph5"].imageData is png, bst.hori is bst.vert, m.line_height)
            return cfg, w, mt.BearingX, mt.BearingY, mt.BearingY - mt.height, mt.Advance, ppem, (mt.width, mt.height), (A, STRIKE[0])
        font = StubFont()
        BT.make_sbix_table(cfg, font, [StubGlyph(3, png)])
        (ppem, strike), = font["sbix"].strikes.items()
        g = strike.glyphs.get("glyph3")  # StubFont calls glyph id 3 "glyph3"
        if g is None or g.imageData is not png or g.glyphName != "glyph3":
            return "sbix image not filed under the font's name for the glyph id", sorted(strike.glyphs)
        adv = BT._width_in_pixels(cfg, png)
        A = CG._advance_width(Rect(0, 0, w, h), cfg)
        return cfg, w, g.originOffsetX, g.originOffsetY + h, g.originOffsetY, adv, strike.ppem, (w, h), A

    with shims.installed(bt_shims()):
        results = jc.explore(body, catch=(AssertionError, ValueError))
    for r in results:
        if r.exc is not None:
            jc.reach(r, "rejected")
            # rejection only when not representable: h > 255 or ideal y_offset outside int8 by more than the 1px nudge
            ppem = round(Fraction(upem * h, F))
            lh = round(Fraction(F * ppem, upem))
            asc = z3.Int("asc")
            y_ideal = core.sym_round(core.SymNum(z3.ToReal(asc) * R(Fraction(ppem, upem)) - R(Fraction(lh - h, 2))))
            justified = z3.Or(z3.BoolVal(h > 255), y_ideal.t > 128, y_ideal.t < -129)
            jc.prove(r, justified, "rejection only for unrepresentable metrics", inp, replay_metrics, key="C14:metrics:spurious-rejection")
            continue
        if isinstance(r.value[0], str):
            jc.reach(r, "ok")
            jc.prove(r, z3.BoolVal(False), "sbix: the image is filed under the name the font gives the glyph id, and is the source's PNG", inp, replay_metrics, key="C14:sbix:glyph-name")
            continue
        cfg, w, x_off, top, bottom, adv_px, ppem, dims, A = r.value
        STRIKE_OF = {}
        if isinstance(A, tuple):
            A, st = A
            STRIKE_OF[id(r)] = st
        jc.reach(r, "ok")
        # nudged?  recompute the ideal offset independently of the code
        ppem_c = round(Fraction(upem * h, F))
        lh_c = round(Fraction(F * ppem_c, upem))
        y_id = core.sym_round(core.SymNum(core.as_term(cfg.ascender) * R(Fraction(ppem_c, upem)) - R(Fraction(lh_c - h, 2))))
        # the second pixel is granted only where the ideal offset does not fit int8 ("had to be nudged"), not wherever the
        # stored offset happens to differ from the ideal (round 5: a double rounding of the scaled ascender hid behind that)
        nudged = z3.Or(y_id.t > 127, y_id.t < -128) if fmt == "cbdt" else z3.BoolVal(False)
        props = spec_props(upem, F, h, mode, cfg, w, x_off, top, bottom, adv_px, ppem, nudged, A)
        props["stored width/height are the PNG's"] = z3.And(core.as_term(dims[0]) == core.as_term(w), core.as_term(dims[1]) == h)
        if fmt == "cbdt":
            props["accepted => bearingY fits int8 and resolution fits uint8"] = z3.And(core.as_term(top) >= -128, core.as_term(top) <= 127, z3.BoolVal(0 <= h <= 255))
            if r.notes and STRIKE_OF.get(id(r)) is not None:
                px, py, sasc, sdesc, wmax, g0, g1, isz, sadv, ident, shared, lh = STRIKE_OF[id(r)]
                asc_px = core.as_term(cfg.ascender) * core.as_term(ppem) * R(Fraction(1, upem))
                props["strike: ppemX = ppemY = ppem, glyph range, image size, line metrics from the config, widthMax = advance"] = z3.And(
                    core.as_term(px) == core.as_term(ppem), core.as_term(py) == core.as_term(ppem), z3.BoolVal(g0 == 5 and g1 == 5 and isz == h and ident),
                    absz(core.as_term(sasc) - asc_px) <= R(Fraction(1, 2)), core.as_term(sdesc) == -(core.as_term(lh) - core.as_term(sasc)),
                    core.as_term(wmax) == core.as_term(sadv), core.as_term(sadv) == core.as_term(adv_px))
        for label, p in props.items():
            jc.prove(r, p, label, inp, replay_metrics, key=f"C14:metrics:{label.split()[0]}:{mode}")
        jc.sample(mode=mode, fmt=fmt, upem=upem, F=F, h=h, x_off=repr(x_off)[:50], top=repr(top)[:50])
    jc.expect_reached("ok" if h <= 255 else "rejected")


# ---------------------------------------------------------------- size limits


def replay_too_big(inp):
    w, h = int(inp["w"]), int(inp["h"])
    try:
        BT.raise_if_too_big_for_cbdt([StubGlyph(1, StubPNG(w, h))])
        raised = False
    except ValueError:
        raised = True
    if raised != (max(w, h) > 255 or max(w, h) < 0):
        return {"size": [w, h], "raised": raised}
    return None


def job_too_big(jc):
    jc.encode(BT.raise_if_too_big_for_cbdt)
    inp = {"w": core.SymNum(z3.Int("w")), "h": core.SymNum(z3.Int("h"))}

    def body():
        w, h = core.integer("w", 1, 2000), core.integer("h", 1, 2000)
        BT.raise_if_too_big_for_cbdt([StubGlyph(1, StubPNG(w, h))])

    with shims.installed(bt_shims()):
        results = jc.explore(body, catch=(ValueError,))
    big = z3.Or(z3.Int("w") > 255, z3.Int("h") > 255)
    for r in results:
        if r.exc is not None:
            jc.reach(r, "ValueError")
            jc.prove(r, big, "too-big error only when a side exceeds 255", inp, replay_too_big, key="C14:toobig:spurious")
        else:
            jc.reach(r, "ok")
            jc.prove(r, z3.Not(big), "a side > 255 is always rejected for CBDT", inp, replay_too_big, key="C14:toobig:missed")
    jc.expect_reached("ok", "ValueError")


# ---------------------------------------------------------------- PNG.read_from over file histories


class _Files:
    """A two-file file system whose contents change between reads (the history is the input)."""

    data = {}

    class Path:
        def __init__(self, p):
            self.p = p if isinstance(p, str) else p.p

        def __fspath__(self):
            return self.p

        def __str__(self):
            return self.p

        def read_bytes(self):
            return _Files.data[self.p]

        def stat(self):
            import types

            return types.SimpleNamespace(st_size=len(_Files.data[self.p]), st_mtime=0.0, st_mtime_ns=0)

        def __eq__(self, o):
            return isinstance(o, _Files.Path) and o.p == self.p

        def __hash__(self):
            return hash(self.p)


def _png(tag, n):
    from nanoemoji.png import PNG

    return PNG.SIGNATURE + bytes([tag]) * n


def _history(n1, n2, n3):
    """write a; read a; rewrite a; read a; write b (same bytes as the first a); read b; read a"""
    from nanoemoji.png import PNG
    from nanoemoji import png as PNGMOD

    saved = PNGMOD.Path
    PNGMOD.Path = _Files.Path
    try:
        _Files.data = {"/s/a.png": _png(1, n1)}
        got = [bytes(PNG.read_from("/s/a.png"))]
        _Files.data["/s/a.png"] = _png(2, n2)
        got.append(bytes(PNG.read_from(_Files.Path("/s/a.png"))))
        _Files.data["/s/b.png"] = _png(3, n3)
        got.append(bytes(PNG.read_from("/s/b.png")))
        got.append(bytes(PNG.read_from("/s/a.png")))
    finally:
        PNGMOD.Path = saved
    want = [_png(1, n1), _png(2, n2), _png(3, n3), _png(2, n2)]
    return got, want


def replay_read_from(inp):
    got, want = _history(int(inp["n1"]), int(inp["n2"]), int(inp["n3"]))
    if got != want:
        return {"reads": [g[8:].hex() for g in got], "file contents at the time of each read": [w[8:].hex() for w in want]}
    return None


def job_read_from(jc):
    """PNG.read_from returns the bytes the file holds at the time of the call, for every rewrite
    history of two files with payload lengths 1..4 (lengths are solver variables, concretised by forking)."""
    from nanoemoji.png import PNG

    jc.encode(PNG.read_from, PNG.__new__)
    inp = {n: core.SymNum(z3.Int(n)) for n in ("n1", "n2", "n3")}

    def body():
        ns = [core.integer(n, 1, 4).concretize() for n in ("n1", "n2", "n3")]
        return _history(*ns)

    results = jc.explore(body, max_paths=200)
    for r in results:
        if not jc.no_exception(r, inp, replay_read_from, "C14:read_from:raises"):
            continue
        got, want = r.value
        jc.reach(r, "ok")
        jc.prove(r, z3.BoolVal(got == want), "every read returns the file's current bytes (no stale image after a rewrite)", inp, replay_read_from, key="C14:read_from:stale")
    jc.expect_reached("ok")


# ---------------------------------------------------------------- two builds in one process (state carried between builds)


def _two_builds(upem, F, h, asc1, asc2):
    """BitmapMetrics.create for two configurations of one em height but different ascenders, one after the other"""
    out = []
    for asc in (asc1, asc2):
        cfg = FontConfig()._replace(upem=upem, ascender=asc, descender=asc - F, width=0, bitmap_resolution=h, color_format="cbdt")
        ppem = BT._ppem(cfg, h)
        m = BT.BitmapMetrics.create(cfg, StubPNG(h, h), ppem)
        out.append((m.y_offset, m.line_ascent, m.line_height, ppem))
    return out


def replay_two_builds(inp):
    """in a FRESH interpreter: the exploration itself may have left state behind in this process, and the claim is
    about what two builds in one (new) process produce"""
    import json
    import subprocess
    import sys

    code = "import json,sys; sys.path.insert(0, %r); from harness import C14; print(json.dumps(C14._two_builds_verdict(json.loads(sys.argv[1]))))" % __import__("os").path.dirname(__import__("os").path.dirname(__import__("os").path.abspath(__file__)))
    p = subprocess.run([sys.executable, "-c", code, json.dumps({k: (int(v) if not isinstance(v, str) else v) for k, v in inp.items()})], capture_output=True, text=True, timeout=300)
    if p.returncode != 0:
        return {"replay subprocess failed": p.stderr[-400:]}
    return json.loads(p.stdout.strip().splitlines()[-1])


def _two_builds_verdict(inp):
    upem, F, h = inp["upem"], inp["F"], inp["h"]
    a1, a2 = int(inp["asc1"]), int(inp["asc2"])
    try:
        got = _two_builds(upem, F, h, a1, a2)
    except (AssertionError, ValueError):
        return None
    bad = []
    for asc, (y, la, lh, ppem) in zip((a1, a2), got):
        s = ppem / upem
        if abs(y - (asc * s - 0.5 * (lh - h))) > 0.5 + 1e-9 and -128 < y < 127:
            bad.append({"ascender": asc, "BearingY": y, "scaled ascender minus half the height mismatch": asc * s - 0.5 * (lh - h)})
    return {"two builds in one process, same em height": [a1, a2], "problems": bad} if bad else None


def job_two_builds(jc):
    jc.encode(BT.BitmapMetrics.create)
    upem, F, h = jc.params["upem"], jc.params["F"], jc.params["h"]
    inp = {"upem": upem, "F": F, "h": h, "asc1": core.SymNum(z3.Int("asc1")), "asc2": core.SymNum(z3.Int("asc2"))}

    def body():
        return _two_builds(upem, F, h, core.integer("asc1", 0, F), core.integer("asc2", 0, F))

    with shims.installed(bt_shims()):
        results = jc.explore(body, catch=(AssertionError, ValueError), max_paths=400)
    ppem = round(Fraction(upem * h, F))
    lh = round(Fraction(F * ppem, upem))
    for r in results:
        if r.exc is not None:
            jc.reach(r, "rejected")
            continue
        jc.reach(r, "ok")
        conj = []
        for name, (y, la, lhh, pp) in zip(("asc1", "asc2"), r.value):
            ideal = z3.ToReal(z3.Int(name)) * R(Fraction(ppem, upem)) - R(Fraction(lh - h, 2))
            nudged = z3.Or(core.as_term(y) == 127, core.as_term(y) == -128)
            conj.append(z3.Or(nudged, absz(core.as_term(y) - ideal) <= R(Fraction(1, 2))))
        jc.prove(r, z3.And(*conj), "each of two builds in one process gets the bearing of its own ascender (nothing carried over from the first build)", inp, replay_two_builds, key="C14:two-builds")
    jc.expect_reached("ok")


def jobs(tier):
    js = [Job("png_read_from[histories]", job_read_from), Job("two builds[upem=1024,F=1200,h=128]", job_two_builds, upem=1024, F=1200, h=128),
          Job("two builds[upem=1000,F=1000,h=64]", job_two_builds, upem=1000, F=1000, h=64),
          Job("two builds[upem=1000,F=1045,h=128]", job_two_builds, upem=1000, F=1045, h=128)]  # line height 127 vs 128 px: half-pixel term in the bearing
    from harness import C17

    for fmt in ("cbdt", "sbix"):
        for n in (2, 3):
            js.append(Job(f"inputs[{fmt},n={n}]", C17.job_inputs, fmt=fmt, n=n))  # every glyph gets the PNG of its own row
    # (1000, 1045) and (1000, 900): em heights just above / below upem, where the scaled line height is the bitmap height ± 1
    # and every rounding in the bearing formula counts (round 5)
    metric_sets = [(1024, 1200), (1000, 1000), (2048, 2400), (1024, 1024), (1000, 1045), (1000, 900)]
    hs = [16, 64, 106, 127, 128, 136, 255] if tier == "quick" else list(range(8, 256, 1))
    for upem, F in metric_sets:
        for h in hs:
            for mode in ("square", "proportional", "fixed"):
                for fmt in ("cbdt", "sbix"):
                    js.append(Job(f"metrics[{fmt},{mode},upem={upem},F={F},h={h}]", job_metrics, upem=upem, F=F, h=h, mode=mode, fmt=fmt))
    for h in (256, 300):
        js.append(Job(f"metrics[cbdt,square,upem=1024,F=1200,h={h}]", job_metrics, upem=1024, F=1200, h=h, mode="square", fmt="cbdt"))
    js.append(Job("raise_if_too_big_for_cbdt", job_too_big))
    from harness import C07_cbdt

    js += C07_cbdt.jobs(tier, prop="C14") + C07_cbdt.copy_jobs(tier)  # glue step: bitmaps follow their glyph through resharding
    return js


def main(tier):
    return run_property(
        "C14",
        jobs(tier),
        tier=tier,
        explanation="Bounded symbolic execution of nanoemoji's bitmap metrics code (ppem, bearings, nudge, advance, size limits) with symbolic ascender, PNG width and configured width; PNG.size is a stub; image bytes are asserted by object identity.",
        bounds={"(upem, em height)": "(1024,1200),(1000,1000),(2048,2400),(1024,1024)", "bitmap height = bitmap_resolution": "quick: 16,64,106,127,128,136,255 (+256,300 for rejection); thorough: every 8..255",
                "ascender": "symbolic 0..em height (descender = ascender - em height)", "PNG width": "symbolic 1..255 (square: = height)", "configured width": "symbolic 0..4096"},
        outside=["PNG bytes / Pillow decoding", "fontTools strike compilation", "bitmap height != bitmap_resolution", "symbolic upem/em height (nonlinear)"],
        assumptions=["PNG height equals config.bitmap_resolution (what the resvg step produces)", "edge tolerance = 1px (2 only where the ideal offset does not fit int8) + |h - em height in px|/2, the mismatch inherent to ppem rounding"],
        shims=[s.describe() for s in bt_shims()],
        stubs=["PNG -> object with symbolic .size", "TTFont -> dict with getGlyphName"],
        budget_s=900 if tier == "quick" else 3400,
    )
