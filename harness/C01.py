"""C01: a COLRv1 glyph paints the same picture as its source SVG (the arithmetic that places and paints).

K1  color_glyph.scale_viewbox_to_font_metrics / map_viewbox_to_font_space / map_viewbox_to_otsvg_space /
    ColorGlyph.transform_for_font_space vs the placement spec; _advance_width.
K2  color_glyph._parse_linear_gradient / _parse_radial_gradient / _get_gradient_transform / _color_stop /
    _common_gradient_parts on real lxml gradient elements (concrete attributes), symbolic bbox,
    placement and opacity; PaintLinear/RadialGradient.apply_transform.
K3  write_font._migrate_paths_to_ufo_glyphs (shared with C06).
K4  Paint*.to_ufo_paint / write_font._ufo_colr_layers: palette index, alpha, layer order.
"""
from __future__ import annotations

from fractions import Fraction

import z3
from lxml import etree

from symx import core, shims
from symx.runner import Job, run_property
from oracle import paint_semantics as ps
from harness import reuse_common as RC
from harness import C16_radial as RS

from nanoemoji import color_glyph as CG
from nanoemoji import paint as P
from nanoemoji import write_font as WF
from nanoemoji.colors import Color
from nanoemoji.config import FontConfig
from picosvg.svg_transform import Affine2D
from picosvg.geometric_types import Rect, Point


def place_spec(vb, asc, desc, width, user):
    """The placement the property states: uniform scale (asc-desc)/vb.h, y flipped at the ascender,
    centred horizontally in the advance, then the user transform. vb = (x, y, w, h)."""
    x, y, w, h = vb
    s = (asc - desc) / h
    dx = (width - s * w) / 2
    base = (s, 0, 0, -s, dx - s * x, asc + s * y)
    return ps.mul(tuple(user), base)


def otsvg_spec(vb, asc, desc, width, user):
    """OT-SVG space (y down, origin on the baseline): the same picture as place_spec, i.e.
    flipY ∘ place. The user transform is given in font coordinates."""
    F = (1, 0, 0, -1, 0, 0)
    return ps.mul(F, place_spec(vb, asc, desc, width, user))


def replay_place(inp):
    g = lambda n: float(inp[n])
    vb = Rect(g("vx"), g("vy"), g("vw"), g("vh"))
    U = Affine2D(*[g(f"u{i}") for i in range(6)])
    asc, desc, width = int(inp["asc"]), int(inp["desc"]), int(inp["width"])
    which = inp["which"]
    fn = CG.map_viewbox_to_font_space if which == "font" else CG.map_viewbox_to_otsvg_space
    got = tuple(fn(vb, asc, desc, width, U))
    want = (place_spec if which == "font" else otsvg_spec)(tuple(vb), asc, desc, width, tuple(U))
    scale = max(1.0, max(abs(float(v)) for v in want))
    err = max(abs(float(a) - float(b)) for a, b in zip(got, want))
    if err > 1e-9 * scale:
        return {"function": fn.__name__, "view_box": list(vb), "metrics": [asc, desc, width], "user_transform": list(U), "got": list(got), "spec": [float(v) for v in want]}
    return None


def job_place(jc):
    jc.encode(CG.scale_viewbox_to_font_metrics, CG.map_viewbox_to_font_space, CG.map_viewbox_to_otsvg_space, CG.ColorGlyph.transform_for_font_space, CG.ColorGlyph.transform_for_otsvg_space)
    which, user_kind = jc.params["which"], jc.params["user"]
    names = ["vx", "vy", "vw", "vh"] + [f"u{i}" for i in range(6)]
    inp = {n: core.SymNum(z3.Real(n)) for n in names}
    inp.update({"asc": core.SymNum(z3.Int("asc")), "desc": core.SymNum(z3.Int("desc")), "width": core.SymNum(z3.Int("width")), "which": which})

    def body():
        r = core.real
        vb = Rect(r("vx", -4096, 4096), r("vy", -4096, 4096), r("vw", 1, 4096), r("vh", 1, 4096))
        asc, desc, width = core.integer("asc", 0, 4000), core.integer("desc", -4000, 0), core.integer("width", 0, 8000)
        core.assume(asc - desc >= 16)
        if user_kind == "identity":
            U = Affine2D.identity()
            for i, v in enumerate(U):
                core.assume(r(f"u{i}") == v)
        elif user_kind == "translate":
            U = Affine2D(1, 0, 0, 1, r("u4", -2000, 2000), r("u5", -2000, 2000))
            for i in range(4):
                core.assume(r(f"u{i}") == U[i])
        else:
            U = Affine2D(*[r(f"u{i}", -4, 4) if i < 4 else r(f"u{i}", -2000, 2000) for i in range(6)])
        # through the ColorGlyph wrapper (what write_font/svg actually call)
        ufo = type("U", (), {"info": type("I", (), {"ascender": asc, "descender": desc, "familyName": "f"})(), "__getitem__": lambda self, k: type("G", (), {"width": width})()})()
        svg = type("S", (), {"view_box": lambda self: vb})()
        cg = CG.ColorGlyph(ufo, "", "", "g", 2, (65,), (), svg, U, None)
        got = cg.transform_for_font_space() if which == "font" else cg.transform_for_otsvg_space()
        want = (place_spec if which == "font" else otsvg_spec)(tuple(vb), asc, desc, width, tuple(U))
        return vb, asc, desc, width, U, got, want

    with shims.installed(shims.numeric_shims("nanoemoji.color_glyph")):
        results = jc.explore(body, catch=(AssertionError, ZeroDivisionError))
    for r in results:
        if not jc.no_exception(r, inp, replay_place, f"C01:place:{which}:raises"):
            continue
        vb, asc, desc, width, U, got, want = r.value
        jc.reach(r, "ok")
        jc.prove(r, ps.aff_eq(tuple(got), want), f"{'font' if which == 'font' else 'OT-SVG'}-space placement == spec (uniform scale to em height, flip at ascender, centred in advance, then user transform)",
                 inp, replay_place, key=f"{'C01' if which == 'font' else 'C02'}:place:{which}:{user_kind}", timeout_ms=60000)
    jc.expect_reached("ok")


# ---------------------------------------------------------------- K2 gradients

GRADIENTS = {
    "linear bbox": '<linearGradient xmlns="http://www.w3.org/2000/svg" id="g" x1="0.1" y1="0.2" x2="0.9" y2="0.7"><stop offset="0" stop-color="#FF0000"/><stop offset="1" stop-color="blue" stop-opacity="0.5"/></linearGradient>',
    "linear user transform reflect": '<linearGradient xmlns="http://www.w3.org/2000/svg" id="g" gradientUnits="userSpaceOnUse" x1="10" y1="20" x2="90" y2="70" gradientTransform="matrix(1.5 0.25 -0.5 2 3 4)" spreadMethod="reflect"><stop offset="0.25" stop-color="#00FF00"/><stop offset="0.75" stop-color="#0000FF" stop-opacity="0.25"/></linearGradient>',
    "radial bbox focal": '<radialGradient xmlns="http://www.w3.org/2000/svg" id="g" cx="0.5" cy="0.5" r="0.4" fx="0.3" fy="0.4" fr="0.1"><stop offset="0" stop-color="#FF0000"/><stop offset="1" stop-color="#0000FF"/></radialGradient>',
    "radial user transform repeat": '<radialGradient xmlns="http://www.w3.org/2000/svg" id="g" gradientUnits="userSpaceOnUse" cx="50" cy="60" r="40" gradientTransform="matrix(1 0 0 0.5 0 10)" spreadMethod="repeat"><stop offset="0" stop-color="#FF0000" stop-opacity="0.5"/><stop offset="1" stop-color="#0000FF"/></radialGradient>',
    "radial user plain": '<radialGradient xmlns="http://www.w3.org/2000/svg" id="g" gradientUnits="userSpaceOnUse" cx="50" cy="60" r="40" fx="45" fy="55"><stop offset="0" stop-color="#FF0000"/><stop offset="1" stop-color="#0000FF"/></radialGradient>',
    "linear user plain": '<linearGradient xmlns="http://www.w3.org/2000/svg" id="g" gradientUnits="userSpaceOnUse" x1="10" y1="20" x2="90" y2="70"><stop offset="0" stop-color="#FF0000"/><stop offset="1" stop-color="#0000FF"/></linearGradient>',
    "linear bbox transform": '<linearGradient xmlns="http://www.w3.org/2000/svg" id="g" x1="0" y1="0" x2="1" y2="0" gradientTransform="matrix(0 1 -1 0 1 0)"><stop offset="0" stop-color="#FF0000"/><stop offset="1" stop-color="#0000FF"/></linearGradient>',
    "radial bbox transform": '<radialGradient xmlns="http://www.w3.org/2000/svg" id="g" cx="0.5" cy="0.5" r="0.5" gradientTransform="matrix(1 0 0 0.75 0 0.1)"><stop offset="0" stop-color="#FF0000"/><stop offset="1" stop-color="#0000FF"/></radialGradient>',
}


def svg_gradient_spec(el, bbox, place):
    """Independent reading of the SVG element (numbers are concrete): geometry mapped by
    place ∘ [bbox] ∘ gradientTransform, stops with opacity, spread method."""
    import re

    g = lambda k, d: float(el.attrib.get(k, d))
    kind = etree.QName(el).localname
    N = place
    if el.attrib.get("gradientUnits", "objectBoundingBox") == "objectBoundingBox":
        N = ps.mul(N, (bbox[2], 0, 0, bbox[3], bbox[0], bbox[1]))
    if "gradientTransform" in el.attrib:
        m = re.fullmatch(r"matrix\(([^)]*)\)", el.attrib["gradientTransform"].strip())
        N = ps.mul(N, tuple(float(x) for x in m.group(1).split()))
    stops = []
    for st in el:
        stops.append((float(st.attrib.get("offset", "0")), st.attrib.get("stop-color"), float(st.attrib.get("stop-opacity", "1"))))
    spread = el.attrib.get("spreadMethod", "pad").upper()
    if kind == "linearGradient":
        p0, p1 = (g("x1", 0), g("y1", 0)), (g("x2", 1), g("y2", 0))
        p2 = (p0[0] - (p1[1] - p0[1]), p0[1] + (p1[0] - p0[0]))
        return ("linear", ps.apply(N, p0), ps.apply(N, p1), ps.apply(N, p2)), stops, spread
    c1 = (g("cx", 0.5), g("cy", 0.5))
    c0 = (g("fx", c1[0]), g("fy", c1[1]))
    return ("radial", c0, g("fr", 0), c1, g("r", 0.5), N), stops, spread


def replay_gradient(inp):
    name = inp["gradient"]
    el = etree.fromstring(GRADIENTS[name])
    g = lambda n, d=0.0: float(inp.get(n, d))
    bbox = Rect(g("bx"), g("by"), g("bw", 10), g("bh", 10))
    vb = Rect(0, 0, 128, 128)
    cfg = FontConfig()._replace(ascender=int(inp.get("asc", 950)), descender=int(inp.get("desc", -250)), transform=Affine2D.identity())
    width = int(inp.get("width", 1275))
    op = g("op", 1.0)
    fn = CG._parse_linear_gradient if name.startswith("linear") else CG._parse_radial_gradient
    try:
        out = fn(cfg, el, bbox, vb, width, op)
    except OverflowError:
        return None
    except Exception as e:
        return {"raised": repr(e)}
    place = place_spec(tuple(vb), cfg.ascender, cfg.descender, width, ps.IDENT)
    spec, stops, spread = svg_gradient_spec(el, tuple(bbox), place)
    lf = ps._fill(out, ps.IDENT, None)
    bad = {}
    got_stops = lf[-2]
    for (off, col, sop), st in zip(stops, got_stops):
        want_alpha = Color.fromstring(col).alpha * sop * op
        if abs(st.stopOffset - off) > 1e-9 or abs(st.color.alpha - want_alpha) > 1e-9 or st.color.opaque() != Color.fromstring(col).opaque():
            bad["stop"] = [repr(st), off, col, want_alpha]
    if lf[-1].name != spread or len(got_stops) != len(stops):
        bad["extend/stops"] = [lf[-1].name, spread]
    if spec[0] == "linear":
        for q in ((0.0, 0.0), (500.0, 0.0), (0.0, 500.0)):
            n1, d1 = ps.linear_t(*spec[1:4], q)
            n2, d2 = ps.linear_t(*lf[1:4], q)
            if abs(d1) > 1e-9 and abs(d2) > 1e-9 and abs(n1 / d1 - n2 / d2) > 1e-6:
                bad["linear"] = [n1 / d1, n2 / d2]
    else:
        import math

        c0, r0, c1, r1, M2 = spec[1:6]
        d0, s0, d1, s1, M1 = lf[1:6]
        M1 = tuple(float(x) for x in M1)
        if abs(M1[0] * M1[3] - M1[1] * M1[2]) > 1e-12:
            N = ps.mul(tuple(Affine2D(*M1).inverse()), tuple(float(x) for x in M2))
            k = math.hypot(N[0], N[1])
            errs = [abs(math.hypot(N[2], N[3]) - k), abs(N[0] * N[2] + N[1] * N[3]), abs(ps.apply(N, c0)[0] - d0[0]), abs(ps.apply(N, c0)[1] - d0[1]),
                    abs(ps.apply(N, c1)[0] - d1[0]), abs(ps.apply(N, c1)[1] - d1[1]), abs(s0 - k * r0), abs(s1 - k * r1)]
            if max(errs) > 1e-5 * max(1.0, k, abs(d1[0]), abs(d1[1]), s1):
                bad["radial"] = errs
    if bad:
        bad["paint"] = repr(out)[:500]
        return bad
    return None


def job_gradient(jc):
    jc.encode(CG._parse_linear_gradient, CG._parse_radial_gradient, CG._get_gradient_transform, CG._color_stop, CG._common_gradient_parts,
              P.PaintLinearGradient.apply_transform, P.PaintRadialGradient.apply_transform)
    name = jc.params["gradient"]
    linear = name.startswith("linear")
    names = ["bx", "by", "bw", "bh", "op"]
    inp = {n: core.SymNum(z3.Real(n)) for n in names}
    inp.update({"asc": core.SymNum(z3.Int("asc")), "desc": core.SymNum(z3.Int("desc")), "width": core.SymNum(z3.Int("width")), "gradient": name})
    vb = Rect(0, 0, 128, 128)
    rec = RS.Recorder(RS.stub_decompose_uniform)

    def body():
        el = etree.fromstring(GRADIENTS[name])
        r = core.real
        bbox = Rect(r("bx", -64, 192), r("by", -64, 192), r("bw", 1, 256), r("bh", 1, 256))
        asc, desc, width = core.integer("asc", 256, 1280), core.integer("desc", -512, 0), core.integer("width", 0, 2048)
        core.assume(asc - desc >= 128)
        op = r("op", 0, 1)
        cfg = FontConfig()._replace(ascender=asc, descender=desc, transform=Affine2D.identity())
        rec.calls.clear()
        fn = CG._parse_linear_gradient if linear else CG._parse_radial_gradient
        out = fn(cfg, el, bbox, vb, width, op)
        return el, bbox, asc, desc, width, op, out, [c[2][0] for c in rec.calls]

    sl = shims.std_shims() + shims.numeric_shims("nanoemoji.color_glyph", "nanoemoji.paint") + [
        shims.Shim("nanoemoji.paint", "transformed", RS.stub_transformed, "compositional: contract proved in C16"),
        shims.Shim("nanoemoji.paint", "_decompose_uniform_transform", rec, "compositional: contract proved in C16 (radial job); recorded uniform part = witness"),
    ]
    saved = Affine2D.inverse
    try:
        with shims.installed(sl):
            Affine2D.inverse = RS.stub_inverse
            results = jc.explore(body, round_mode="identity", feas_timeout_ms=1500, catch=(OverflowError, ValueError, AssertionError, ZeroDivisionError), max_paths=3000)
    finally:
        Affine2D.inverse = saved
    for r in results:
        if isinstance(r.exc, OverflowError):
            jc.reach(r, "OverflowError")
            continue
        if not jc.no_exception(r, inp, replay_gradient, f"C01:gradient:{name}:raises"):
            continue
        el, bbox, asc, desc, width, op, out, uniforms = r.value
        jc.reach(r, "ok")
        with core.post(r):
            place = place_spec(tuple(vb), asc, desc, width, ps.IDENT)
            spec, stops, spread = svg_gradient_spec(el, tuple(bbox), place)
            lf = ps._fill(out, ps.IDENT, None)
        key = f"C01:gradient:{name}"
        got_stops = lf[-2]
        conj = [z3.BoolVal(len(got_stops) == len(stops) and lf[-1].name == spread)]
        for (off, col, sop), st in zip(stops, got_stops):
            c = Color.fromstring(col)
            conj.append(z3.BoolVal(st.color.opaque() == c.opaque()))
            conj.append(core.as_term(st.stopOffset) == core.as_term(off))
            conj.append(core.as_term(st.color.alpha) == core.as_term(op) * z3.RealVal(Fraction(c.alpha * sop)))
        jc.prove(r, z3.And(*conj), "stops: offset, colour, alpha = colour alpha x stop-opacity x shape opacity; extend = spreadMethod", inp, replay_gradient, key=key + ":stops")
        if spec[0] == "linear":
            prop = ps.linear_same(spec[1:4], lf[1:4])
        else:
            # spec circles under N  vs  emitted circles under M': witness similarity from the code's own split
            prop = RC.radial_same_witness(lf[1:6], spec[1:6], [ps.IDENT] + [tuple(u) for u in uniforms])
        jc.prove(r, prop, "gradient geometry == the SVG element's geometry mapped by place ∘ [bbox] ∘ gradientTransform", inp, replay_gradient, key=key + ":geometry", timeout_ms=60000)
    jc.expect_reached("ok")


# ---------------------------------------------------------------- K4 ufo colr layers


UFO_PALETTE = [Color(0, 0, 0, 1.0), Color(255, 0, 0, 1.0), Color(0, 0, 255, 1.0), Color(10, 20, 30, 1.0)]
UFO_NAMES = ["a1", "a2", "o0", "ga", "x0", "y0", "x1", "y1", "x2", "y2"] + [f"t{i}" for i in range(6)]


def _ufo_layers_case(v):
    """v(name) -> number: the three layers the job runs through _ufo_colr_layers"""
    a1, a2 = v("a1"), v("a2")
    lin = P.PaintLinearGradient(stops=(P.ColorStop(v("o0"), Color(255, 0, 0, a1)), P.ColorStop(0.75, Color(0, 0, 255, 0.5)), P.ColorStop(1.0, Color.current_color(alpha=0.25))), extend=P.Extend.REPEAT,
                                p0=Point(v("x0"), v("y0")), p1=Point(v("x1"), v("y1")), p2=Point(v("x2"), v("y2")))
    return (
        P.PaintGlyph(glyph="g0", paint=P.PaintSolid(Color(10, 20, 30, a2))),
        P.PaintTransform(transform=tuple(v(f"t{i}") for i in range(6)), paint=P.PaintGlyph(glyph="g1", paint=lin)),
        P.PaintComposite(mode=P.CompositeMode.SRC_IN, source=P.PaintColrLayers((P.PaintGlyph(glyph="g2", paint=P.PaintSolid(Color.current_color(alpha=a1))),
                                                                                 P.PaintGlyph(glyph="g3", paint=P.PaintSolid(Color(255, 0, 0, 1.0))))),
                         backdrop=P.PaintSolid(Color(0, 0, 0, v("ga")))),
    )


def _ufo_layers_props(layers, d, eq, B):
    """[(what, truth)] with eq(a, b) / B(bool) symbolic (job) or concrete (replay)"""
    L = d["Layers"]
    ok = d["Format"] == 1 and len(L) == 3 and [L[0]["Glyph"], L[1]["Paint"]["Glyph"]] == ["g0", "g1"]
    out = [("three layers in input order", B(ok))]
    if not ok:
        return out
    s0 = L[0]["Paint"]
    out += [("solid: palette index of the opaque colour", B(s0["PaletteIndex"] == 3)), ("solid: alpha in the paint", eq(s0["Alpha"], layers[0].paint.color.alpha))]
    t = L[1]
    out += [("PaintTransform format", B(t["Format"] == 12))] + [(f"transform[{k}] copied", eq(a, b)) for k, (a, b) in enumerate(zip(t["Transform"], layers[1].transform))]
    g = t["Paint"]["Paint"]
    lin = layers[1].paint.paint
    out += [("linear gradient: format, extend, stop palette indices", B(g["Format"] == 4 and g["ColorLine"]["Extend"] == "repeat" and [s["PaletteIndex"] for s in g["ColorLine"]["ColorStop"]] == [1, 2, 0xFFFF])),
            ("currentColor stop alpha", eq(g["ColorLine"]["ColorStop"][2]["Alpha"], 0.25)),
            ("stop 0 alpha", eq(g["ColorLine"]["ColorStop"][0]["Alpha"], lin.stops[0].color.alpha)), ("stop 1 alpha", eq(g["ColorLine"]["ColorStop"][1]["Alpha"], 0.5)),
            ("stop 0 offset", eq(g["ColorLine"]["ColorStop"][0]["StopOffset"], lin.stops[0].stopOffset))]
    for k, val in (("x0", lin.p0[0]), ("y0", lin.p0[1]), ("x1", lin.p1[0]), ("y1", lin.p1[1]), ("x2", lin.p2[0]), ("y2", lin.p2[1])):
        out.append((f"gradient {k} copied", eq(g[k], val)))
    c = L[2]
    src = c["SourcePaint"]["Layers"]
    out += [("composite: mode and source layer order", B(c["Format"] == 32 and c["CompositeMode"] == "src_in" and [x["Glyph"] for x in src] == ["g2", "g3"])),
            ("currentColor -> 0xFFFF; other palette indices", B(src[0]["Paint"]["PaletteIndex"] == 0xFFFF and src[1]["Paint"]["PaletteIndex"] == 1 and c["BackdropPaint"]["PaletteIndex"] == 0)),
            ("group alpha", eq(c["BackdropPaint"]["Alpha"], layers[2].backdrop.color.alpha)), ("currentColor alpha", eq(src[0]["Paint"]["Alpha"], layers[2].source.layers[0].paint.color.alpha))]
    return out


def replay_ufo_layers(inp):
    layers = _ufo_layers_case(lambda n: float(inp.get(n, 0.25)))
    cg = type("CG", (), {"painted_layers": layers})()
    try:
        d = WF._ufo_colr_layers(1, UFO_PALETTE, cg)
    except Exception as e:
        return {"raised": repr(e)}
    bad = [what for what, truth in _ufo_layers_props(layers, d, lambda a, b: abs(float(a) - float(b)) < 1e-12, bool) if not truth]
    return {"failed": bad, "ufo paint": repr(d)[:600]} if bad else None


def job_ufo_layers(jc):
    jc.encode(WF._ufo_colr_layers, P.PaintGlyph.to_ufo_paint, P.PaintSolid.to_ufo_paint, P.PaintLinearGradient.to_ufo_paint, P.PaintRadialGradient.to_ufo_paint,
              P.PaintTransform.to_ufo_paint, P.PaintComposite.to_ufo_paint, P.PaintColrLayers.to_ufo_paint)
    inp = {n: core.SymNum(z3.Real(n)) for n in UFO_NAMES}

    def body():
        layers = _ufo_layers_case(lambda n: core.real(n, 0, 1) if n in ("a1", "a2", "o0", "ga") else core.real(n))
        cg = type("CG", (), {"painted_layers": layers})()
        return layers, WF._ufo_colr_layers(1, UFO_PALETTE, cg)

    results = jc.explore(body)
    for r in results:
        if not jc.no_exception(r, inp, replay_ufo_layers, "C01:ufo_layers:raises"):
            continue
        layers, d = r.value
        jc.reach(r, "ok")
        props = _ufo_layers_props(layers, d, lambda a, b: core.as_term(a) == core.as_term(b), z3.BoolVal)
        jc.prove(r, z3.And(*[t for _, t in props]), "ufo COLR layers: input order, palette index of the opaque colour, alpha in the paint, currentColor -> 0xFFFF, geometry and transform copied", inp, replay_ufo_layers, key="C01:ufo_layers")
    jc.expect_reached("ok")


def jobs(tier):
    js = []
    for which in ("font",):  # the OT-SVG placement job is registered under C02
        for user in ("identity", "translate", "general"):
            js.append(Job(f"place[{which},{user}]", job_place, which=which, user=user))
    for name in GRADIENTS:
        js.append(Job(f"gradient[{name}]", job_gradient, gradient=name))
    js.append(Job("ufo_colr_layers", job_ufo_layers))
    from harness import C06, C04

    for k in (RC.QUICK_PAINTS if tier == "quick" else RC.PAINTS):
        js.append(Job(f"migrate[{k}]", C06.job_migrate, paint=k))
    for h in (24, 128, 1000):
        js.append(Job(f"advance[fn,h={h}]", C04.job_advance, h=h, kind="fn"))
    # real picosvg-normal sources through ColorGlyph.create/_painted_layers (z-order, groups, gradients)
    from harness import C01_source

    js += C01_source.jobs("thorough")
    # obligations that discharge the contracts used above (paint.transformed, radial split)
    from harness import C16, C16_radial

    js.append(Job("contract:transformed", C16.job_transformed))
    js += [Job("contract:" + j.name, j.fn, **j.params) for j in C16_radial.jobs(tier)]
    # the clip box recorded for the glyph must not cut what these paints draw (kernel of C05)
    from harness import C05

    for upem, quant in ((1000, None), (1024, 7)):
        js.append(Job(f"colr_ufo[PQ,upem={upem},q={quant}]", C05.job_colr_ufo, order="PQ", upem=upem, quant=quant))
    js.append(Job("bounds[PaintTransform,square,step=20]", C05.job_bounds, template="PaintTransform", outline="square", factor=20))
    for kind, _ in C16._mk_transform_paints():
        js.append(Job(f"to_ufo_paint[{kind}]", C16.job_to_ufo_paint, kind=kind))
    return js


def main(tier):
    return run_property(
        "C01",
        jobs(tier),
        tier=tier,
        explanation="Bounded symbolic execution of the arithmetic that places and paints a COLRv1 glyph: viewBox->font placement, gradient parsing/transform/radial split on real lxml elements, the reuse counter-transform (shared with C06), ufo COLR layer emission.",
        bounds={"view box": "x,y in [-4096,4096], w,h in [1,4096] symbolic", "metrics": "ascender 0..4000, descender -4000..0, width 0..8000 symbolic", "user transform": "identity / translation / general (entries [-4,4], translation [-2000,2000])",
                "gradients": "8 concrete SVG gradient elements (bbox/userSpace x transform x linear/radial x focal), symbolic shape bbox, metrics and opacity; fixed 128x128 view box", "stops": "2"},
        outside=["SVG normalisation (picosvg, Skia); sources are hand-written picosvg-normal documents (5 of them)", "outline quantisation", "ufo2ft/fontTools compilation", "real reuse detection"],
        assumptions=["gradient element numbers are concrete (picosvg parses them with float(str))", "paint.transformed/_decompose_uniform_transform/Affine2D.inverse replaced by contracts discharged in C16"],
        shims=["std + numeric shims"],
        stubs=["ufo/SVG attribute bags for ColorGlyph"],
        budget_s=900 if tier == "quick" else 3000,
    )
