"""C16 radial leg: PaintRadialGradient.apply_transform / _decompose_uniform_transform.

picosvg's Affine2D.decompose_scale / decompose_translation are third-party code whose
NRA encoding is intractable (DESIGN 1.1(3)); they are replaced by *contract stubs*
(fresh values constrained by the documented contract) and the contracts are validated
concretely against the real picosvg on the repo's test transforms.
"""
from __future__ import annotations

import math
from fractions import Fraction

import z3

from symx import core, shims
from symx.runner import Job
from oracle import paint_semantics as ps

from nanoemoji import paint as P
from nanoemoji import fixed
from picosvg.svg_transform import Affine2D
from picosvg.geometric_types import Point


# OpenType field ranges, stated here (not read from nanoemoji.fixed) so that a change to the code's constants cannot move the oracle
OT_MIN_INT16, OT_MAX_INT16, OT_MIN_UINT16, OT_MAX_UINT16 = -32768, 32767, 0, 65535
OT_MIN_F2DOT14, OT_MAX_F2DOT14 = Fraction(-2), Fraction(2**15 - 1, 2**14)

_real_decompose_scale = Affine2D.decompose_scale
_real_decompose_translation = Affine2D.decompose_translation


def stub_decompose_scale(self):
    """Contract: scale = diag(|col0|, |col1|); (scale, remaining) compose LTR to self."""
    if not any(isinstance(v, core.SymNum) for v in self):
        return _real_decompose_scale(self)
    sx = core.sym_hypot(self.a, self.b)
    sy = core.sym_hypot(self.c, self.d)
    scale = Affine2D(sx, 0, 0, sy, 0, 0)
    rem = Affine2D(*[core.fresh_real("rem") for _ in range(6)])
    c = core.ctx()
    for got, want in zip(ps.mul(tuple(rem), tuple(scale)), tuple(self)):
        c.add(core.as_term(got) == core.as_term(want), definitional=True)
    return scale, rem


def stub_decompose_translation(self):
    """Contract: (translation, self with e=f=0) compose LTR to self; identity when e,f ~ 0."""
    if not any(isinstance(v, core.SymNum) for v in self):
        return _real_decompose_translation(self)
    prime = self._replace(e=0, f=0)
    if self.almost_equals(prime):
        return Affine2D.identity(), prime
    x, y = core.fresh_real("trx"), core.fresh_real("try")
    c = core.ctx()
    c.add(core.as_term(self.a * x + self.c * y) == core.as_term(self.e), definitional=True)
    c.add(core.as_term(self.b * x + self.d * y) == core.as_term(self.f), definitional=True)
    return Affine2D(1, 0, 0, 1, x, y), prime


def radial_shims():
    return shims.std_shims() + [
        shims.Shim("picosvg.svg_transform.Affine2D", "decompose_scale", stub_decompose_scale, "contract stub (third-party NRA-intractable)"),
        shims.Shim("picosvg.svg_transform.Affine2D", "decompose_translation", stub_decompose_translation, "contract stub (third-party NRA-intractable)"),
    ]


class _ClsShim(shims.Shim):
    pass


def _install():
    import contextlib

    @contextlib.contextmanager
    def cm():
        with shims.installed(shims.std_shims()):
            Affine2D.decompose_scale = stub_decompose_scale
            Affine2D.decompose_translation = stub_decompose_translation
            try:
                yield
            finally:
                Affine2D.decompose_scale = _real_decompose_scale
                Affine2D.decompose_translation = _real_decompose_translation

    return cm()


def validate_contracts(jc):
    """The stubs' contracts hold for the real picosvg on concrete transforms."""
    tests = [
        Affine2D(2, 0, 0, 2, 10, 20), Affine2D(1, 0, 0, -1, 0, 950), Affine2D(0.5, 0.1, -0.2, 1.5, 3, 4),
        Affine2D(0, 1, -1, 0, 5, 5), Affine2D(8, 0, 0, -8, 0, 1024), Affine2D(3, 1, 2, -4, -7, 9),
        Affine2D(1.2, 0, 0, 0.7, 100, -30),
    ]
    for T in tests:
        scale, rem = _real_decompose_scale(T)
        comp = Affine2D.compose_ltr((scale, rem))
        if not comp.almost_equals(T, 1e-6) or scale.b != 0 or scale.c != 0:
            raise core.HarnessError(f"decompose_scale contract violated by picosvg on {T}")
        if abs(scale.a - math.hypot(T.a, T.b)) > 1e-9 or abs(scale.d - math.hypot(T.c, T.d)) > 1e-9:
            raise core.HarnessError(f"decompose_scale contract (column norms) violated on {T}")
        tr, prime = _real_decompose_translation(T)
        comp = Affine2D.compose_ltr((tr, prime))
        if not comp.almost_equals(T, 1e-6) or tuple(prime)[:4] != tuple(T)[:4] or (prime.e, prime.f) != (0, 0):
            raise core.HarnessError(f"decompose_translation contract violated by picosvg on {T}")
        jc.concrete_validations += 2


def replay_radial(inp):
    g = lambda n: float(inp[n])
    grad = P.PaintRadialGradient(c0=Point(g("c0x"), g("c0y")), c1=Point(g("c1x"), g("c1y")), r0=g("r0"), r1=g("r1"))
    T = Affine2D(*[g(f"t{i}") for i in range(6)])
    try:
        out = grad.apply_transform(T)
    except OverflowError as e:
        # legitimate iff some uniform-mapped field is out of range: recompute independently
        s = max(math.hypot(T.a, T.b), math.hypot(T.c, T.d))
        if max(g("r0"), g("r1")) * s > 65535:
            return None
        return {"maybe_spurious_overflow": repr(e)} if inp.get("_expect_ok") else None
    except Exception as e:
        return {"raised": repr(e), "T": list(T)}
    M = ps.IDENT
    p = out
    while not isinstance(p, P.PaintRadialGradient):
        M = ps.mul(M, ps.paint_matrix(p))
        p = p.paint
    # compare colour fields numerically: N = M^-1 ∘ T must map circle i -> circle i'
    Mi = tuple(Affine2D(*M).inverse())
    N = ps.mul(Mi, tuple(T))
    k = math.hypot(N[0], N[1])
    errs = [
        abs(math.hypot(N[2], N[3]) - k), abs(N[0] * N[2] + N[1] * N[3]),
        abs(ps.apply(N, grad.c0)[0] - p.c0[0]), abs(ps.apply(N, grad.c0)[1] - p.c0[1]),
        abs(ps.apply(N, grad.c1)[0] - p.c1[0]), abs(ps.apply(N, grad.c1)[1] - p.c1[1]),
        abs(p.r0 - k * grad.r0), abs(p.r1 - k * grad.r1),
    ]
    scale = max(1.0, k, abs(p.c0[0]), abs(p.c0[1]), abs(p.c1[0]), abs(p.c1[1]), p.r1)
    if max(errs) > 1e-4 * scale:
        return {"gradient": repr(grad), "T": list(T), "out": repr(out), "errs": errs}
    for name, v, lo, hi in (("c0x", p.c0[0], -32768, 32767), ("c0y", p.c0[1], -32768, 32767), ("c1x", p.c1[0], -32768, 32767),
                            ("c1y", p.c1[1], -32768, 32767), ("r0", p.r0, 0, 65535), ("r1", p.r1, 0, 65535)):
        if not (lo <= v <= hi):
            return {"silently_accepted_out_of_range": name, "value": v}
    return None


_real_inverse = Affine2D.inverse
_real_check_overflows = P.PaintRadialGradient.check_overflows


class _PathLocalInverses:
    """(M, M^-1) pairs handed out on the CURRENT path (stored in the path context, so nothing
    leaks between paths); harnesses may use them as witnesses."""

    def _lst(self):
        return core.ctx().trig.setdefault("inverses", [])

    def __iter__(self):
        return iter(list(self._lst()))

    def append(self, x):
        self._lst().append(x)

    def clear(self):
        self._lst().clear()


INVERSES = _PathLocalInverses()


def stub_inverse(self):
    """Contract: M·M^-1 = I (six fresh reals; no division reaches the solver).
    Valid for non-degenerate M, which the harness assumes (|det| >= detmin)."""
    if not any(isinstance(v, core.SymNum) for v in self):
        return _real_inverse(self)
    for M, Mi in INVERSES:
        if all(core.as_term(x).get_id() == core.as_term(y).get_id() for x, y in zip(M, self)):
            return Mi
    inv = Affine2D(*[core.fresh_real("inv") for _ in range(6)])
    INVERSES.append((self, inv))
    c = core.ctx()
    for got, want in zip(ps.mul(tuple(self), tuple(inv)), ps.IDENT):
        c.add(core.as_term(got) == core.as_term(want), definitional=True)
    return inv


def stub_transformed(transform, target):
    """Contract proved by job 'transformed' (A1): the emitted chain denotes `transform`
    within 2^-14. Replaced by an opaque node denoting exactly `transform`."""
    return P.PaintTransform(paint=target, transform=tuple(transform))


def stub_decompose_uniform(transform):
    """Contract of paint._decompose_uniform_transform, discharged by C16 job
    'radial.apply_transform' (residual ∘ uniform == original affine; uniform part is a
    similarity (s,0,0,±s,tx,ty) with s > 0): fresh values constrained by exactly that."""
    if not any(isinstance(v, core.SymNum) for v in transform):
        return P._decompose_uniform_transform.__wrapped__(transform) if hasattr(P._decompose_uniform_transform, "__wrapped__") else _REAL_DECOMPOSE_UNIFORM(transform)
    s = core.fresh_real("us")
    c = core.ctx()
    c.add(s.t > 0, definitional=True)
    neg = bool(core.SymBool(core.as_term(transform.d) < 0))
    tx, ty = core.fresh_real("utx"), core.fresh_real("uty")
    U = Affine2D(s, 0, 0, -s if neg else s, tx, ty)
    rem = Affine2D(*[core.fresh_real("urem") for _ in range(4)], 0, 0)
    for got, want in zip(ps.mul(tuple(rem), tuple(U)), tuple(transform)):
        c.add(core.as_term(got) == core.as_term(want), definitional=True)
    return U, rem


_REAL_DECOMPOSE_UNIFORM = P._decompose_uniform_transform


class Recorder:
    def __init__(self, fn):
        self.fn = fn
        self.calls = []

    def __call__(self, *a, **k):
        r = self.fn(*a, **k)
        self.calls.append((a, k, r))
        return r


def job_radial(jc):
    """Algebraic stage: rounding shimmed to identity, exact equalities (DESIGN 1.1)."""
    jc.encode(P.PaintRadialGradient.apply_transform, P._decompose_uniform_transform)
    validate_contracts(jc)
    L = jc.params.get("L", 1000)
    detmin = jc.params.get("detmin", Fraction(1, 100))
    names = ["c0x", "c0y", "c1x", "c1y", "r0", "r1"] + [f"t{i}" for i in range(6)]
    rec = Recorder(P._decompose_uniform_transform)

    def body():
        r = core.real
        c0 = Point(r("c0x", -L, L), r("c0y", -L, L))
        c1 = Point(r("c1x", -L, L), r("c1y", -L, L))
        r0, r1 = r("r0", 0, L), r("r1", 0, L)
        T = Affine2D(*[r(f"t{i}", -L, L) for i in range(6)])
        d = T.a * T.d - T.b * T.c
        core.assume(core.sym_or(d >= detmin, d <= -detmin))
        grad = P.PaintRadialGradient(c0=c0, c1=c1, r0=r0, r1=r1)
        rec.calls.clear()
        out = grad.apply_transform(T)
        (_, _, (U, rem)) = rec.calls[-1]
        return grad, T, out, U

    extra_shims = [
        shims.Shim("nanoemoji.paint", "transformed", stub_transformed, "compositional: contract proved in job transformed"),
        shims.Shim("nanoemoji.paint", "_decompose_uniform_transform", rec, "recorder (calls through to the real function)"),
    ]
    with shims.installed(shims.std_shims() + extra_shims):
        Affine2D.decompose_scale = stub_decompose_scale
        Affine2D.decompose_translation = stub_decompose_translation
        Affine2D.inverse = stub_inverse
        P.PaintRadialGradient.check_overflows = lambda self: self
        try:
            results = jc.explore(body, round_mode="identity", feas_timeout_ms=1500)
        finally:
            Affine2D.decompose_scale = _real_decompose_scale
            Affine2D.decompose_translation = _real_decompose_translation
            Affine2D.inverse = _real_inverse
            P.PaintRadialGradient.check_overflows = _real_check_overflows
    inp = {n: core.SymNum(z3.Real(n)) for n in names}
    tol = Fraction(1, 10**6)
    for r in results:
        if not jc.no_exception(r, inp, replay_radial, "C16:radial:raises"):
            continue
        grad, T, out, U = r.value
        M = ps.IDENT
        p = out
        while not isinstance(p, P.PaintRadialGradient):
            M = ps.mul(M, ps.paint_matrix(p))
            p = p.paint
        cls = "translation-dropped" if (not isinstance(U.e, core.SymNum) and U.e == 0 and not isinstance(U.f, core.SymNum) and U.f == 0) else "translated"
        jc.reach(r, cls)
        # exists similarity U (witness = the uniform part the code computed) such that
        #  (A) wrapper ∘ U == T  (within tol: a translation below 1e-9 is dropped by picosvg)
        #  (B) U is a similarity and maps circle i onto emitted circle i exactly
        A = ps.aff_eq(ps.mul(M, tuple(U)), tuple(T), tol)
        jc.prove(r, A, "A3 radial: residual ∘ uniform == original affine", inp, replay_radial, key="C16:radial:colour", timeout_ms=60000)
        a, b, c, d, e, f = U
        k2 = a * a + b * b
        Bp = z3.And(
            core.eq_tol(a * a + b * b, c * c + d * d, 0), core.eq_tol(a * c + b * d, 0, 0),
            ps.pt_eq(ps.apply(tuple(U), grad.c0), p.c0), ps.pt_eq(ps.apply(tuple(U), grad.c1), p.c1),
            core.eq_tol(p.r0 * p.r0, k2 * grad.r0 * grad.r0, 0), core.eq_tol(p.r1 * p.r1, k2 * grad.r1 * grad.r1, 0),
            core.as_term(p.r0) >= 0, core.as_term(p.r1) >= 0,
        )
        jc.prove(r, Bp, "A3 radial: uniform part is a similarity mapping circles onto emitted circles", inp, replay_radial,
                 key="C16:radial:colour", timeout_ms=60000)
        jc.sample(cls=cls, U=[repr(x) for x in U][:4])
    jc.expect_reached("translated", "translation-dropped")


def replay_radial_overflow(inp):
    g = lambda n: float(inp[n])
    grad = P.PaintRadialGradient(c0=Point(g("c0x"), g("c0y")), c1=Point(g("c1x"), g("c1y")), r0=g("r0"), r1=g("r1"))
    oob = any(not (-32768 <= v <= 32767) for v in (g("c0x"), g("c0y"), g("c1x"), g("c1y"))) or any(not (0 <= v <= 65535) for v in (g("r0"), g("r1")))
    try:
        grad.check_overflows()
        raised = False
    except OverflowError:
        raised = True
    if raised != oob:
        return {"gradient": repr(grad), "raised": raised, "out_of_range": oob}
    return None


def job_radial_overflow(jc):
    """check_overflows raises exactly when a field does not fit int16/uint16; and
    apply_transform consults it (wiring, concrete)."""
    jc.encode(P.PaintRadialGradient.check_overflows)
    names = ["c0x", "c0y", "c1x", "c1y", "r0", "r1"]
    W = 200000

    def body():
        r = core.real
        grad = P.PaintRadialGradient(c0=Point(r("c0x", -W, W), r("c0y", -W, W)), c1=Point(r("c1x", -W, W), r("c1y", -W, W)), r0=r("r0", -W, W), r1=r("r1", -W, W))
        grad.check_overflows()
        return grad

    with shims.installed(shims.std_shims()):
        results = jc.explore(body, catch=(OverflowError,))
    inp = {n: core.SymNum(z3.Real(n)) for n in names}
    fits = z3.And(*[z3.And(inp[n].t >= OT_MIN_INT16, inp[n].t <= OT_MAX_INT16) for n in names[:4]],
                  *[z3.And(inp[n].t >= OT_MIN_UINT16, inp[n].t <= OT_MAX_UINT16) for n in names[4:]])
    for r in results:
        if r.exc is not None:
            jc.reach(r, "OverflowError")
            jc.prove(r, z3.Not(fits), "radial OverflowError only when a field is out of range", inp, replay_radial_overflow, key="C16:radial:overflow-spurious")
        else:
            jc.reach(r, "ok")
            jc.prove(r, fits, "radial out-of-range field never accepted silently", inp, replay_radial_overflow, key="C16:radial:overflow-missed")
    jc.expect_reached("ok", "OverflowError")
    # wiring: apply_transform(check_overflows=True) reaches check_overflows on its result
    big = P.PaintRadialGradient(c0=Point(0, 0), c1=Point(0, 0), r0=0.0, r1=40000.0)
    try:
        big.apply_transform(Affine2D(2, 0, 0, 2, 0, 0))
        jc.violation("C16:radial:overflow-wiring", "apply_transform consults check_overflows", {"r1": 40000, "scale": 2}, {"no OverflowError": True})
    except OverflowError:
        jc.concrete_validations += 1


def jobs(tier):
    return [Job("radial.apply_transform", job_radial), Job("radial.check_overflows", job_radial_overflow)]
