def jobs(tier):
    return []
