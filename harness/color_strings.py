"""Colour strings written into SVG output (nanoemoji.colors.Color.to_string), for every colour.

Shared by C02 (OT-SVG documents nanoemoji writes) and C13 (COLR -> SVG): both hand each solid / stop
colour to Color.to_string.  Red, green, blue are symbolic 0..255 and alpha a symbolic real; the string
that comes back (hex digits as format tokens, or a CSS name) is read by the independent CSS reader in
oracle/css_color.py and must denote the same colour.
"""
from __future__ import annotations

from fractions import Fraction

import z3

from symx import core, shims
from symx.runner import Job
from oracle import css_color

from nanoemoji import colors as COLORS
from nanoemoji.colors import Color


def _pil_names():
    from PIL import ImageColor

    out = {}
    for name, v in ImageColor.colormap.items():
        if isinstance(v, str) and v.startswith("#") and len(v) == 7:
            out[name] = (int(v[1:3], 16), int(v[3:5], 16), int(v[5:7], 16))
    return out


def replay_to_string(inp):
    r, g, b = int(inp["r"]), int(inp["g"]), int(inp["b"])
    a = 1.0 if inp["mode"] == "opaque" else float(inp["a"])
    idx = inp.get("index")
    try:
        s = Color(r, g, b, a, idx).to_string()
    except Exception as e:
        return {"raised": repr(e)}
    try:
        c = css_color.parse(s) if s.startswith(("#", "var(", "currentColor")) or s in css_color.NAMED else css_color.Css(_pil_names()[s], Fraction(1), None, False)
    except (ValueError, KeyError) as e:
        return {"string": s, "unreadable": repr(e), "color": [r, g, b, a, idx]}
    if c.rgb != (r, g, b) or c.palette_index != idx or abs(float(c.alpha) - a) >= 1 / 255 + 1e-12 or (a == 1.0 and c.alpha != 1):
        return {"string": s, "reads as": [list(c.rgb), float(c.alpha), c.palette_index], "color": [r, g, b, a, idx]}
    return None


def job_to_string(jc):
    jc.encode(Color.to_string, COLORS.color_name)
    mode, idx = jc.params["mode"], jc.params.get("index")
    inp = {"mode": mode, "index": idx, "r": core.SymNum(z3.Int("r")), "g": core.SymNum(z3.Int("g")), "b": core.SymNum(z3.Int("b"))}
    if mode != "opaque":
        inp["a"] = core.SymNum(z3.Real("a"))

    def body():
        r, g, b = core.integer("r", 0, 255), core.integer("g", 0, 255), core.integer("b", 0, 255)
        a = 1.0
        if mode != "opaque":
            a = core.real("a", 0, 1)
            core.assume(a < 1)
        return Color(r, g, b, a, idx).to_string()

    with shims.installed(shims.numeric_shims("nanoemoji.colors")):
        results = jc.explore(body, max_paths=4000, feas_timeout_ms=2000)
    names = _pil_names()
    R, G, B = z3.Int("r"), z3.Int("g"), z3.Int("b")
    for res in results:
        if not jc.no_exception(res, inp, replay_to_string, f"{jc.prop_id}:to_string:{mode}:raises"):
            continue
        s = res.value
        key = f"{jc.prop_id}:to_string:{mode}"
        if idx is not None:
            pre = f"var(--color{idx}, "
            if not (isinstance(s, str) and s.startswith(pre) and s.endswith(")")):
                jc.prove(res, z3.BoolVal(False), "palette colours are written as var(--colorN, default)", inp, replay_to_string, key=key)
                continue
            s = s[len(pre):-1]
        if isinstance(s, str) and s.startswith("#"):
            jc.reach(res, "hex")
            feas = lambda cond: core.check(res.constraints() + [cond], None, timeout_ms=5000)[0] != core.Verdict.UNSAT
            try:
                cases = css_color.parse_hex_sym(s, res.tokens, feas)
            except ValueError:
                jc.prove(res, z3.BoolVal(False), "the colour string is hex digits", inp, replay_to_string, key=key)
                continue
            for cond, c in cases:  # one (linear) query per feasible digit count
                prop = z3.And(c["valid"], c["r"] == R, c["g"] == G, c["b"] == B)
                if mode == "opaque":
                    prop = z3.And(prop, c["alpha"] == 1)
                else:
                    A = z3.Real("a")
                    prop = z3.And(prop, c["alpha"] <= A, A - c["alpha"] < z3.RealVal(Fraction(1, 255)), c["alpha"] < 1)
                jc.prove(res, z3.Implies(cond, prop), f"the written #hex string reads back as the same red, green, blue and alpha (alpha to 1/255) [{c['digits']} digits]", inp, replay_to_string, key=key)
        elif isinstance(s, str) and s in names:
            jc.reach(res, "name")
            nr, ng, nb = names[s]
            jc.prove(res, z3.And(R == nr, G == ng, B == nb, z3.BoolVal(mode == "opaque")), "a CSS colour name is written only for exactly that opaque colour", inp, replay_to_string, key=key)
        else:
            jc.prove(res, z3.BoolVal(False), "the colour string is #hex or a CSS name", inp, replay_to_string, key=key)
    jc.expect_reached("hex", *(("name",) if mode == "opaque" else ()))


def jobs(tier):
    js = [Job("to_string[opaque]", job_to_string, mode="opaque"), Job("to_string[alpha]", job_to_string, mode="alpha")]
    js.append(Job("to_string[opaque,var]", job_to_string, mode="opaque", index=3))
    if tier != "quick":
        js.append(Job("to_string[alpha,var]", job_to_string, mode="alpha", index=0))
    return js
