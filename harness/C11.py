"""C11: reordering glyphs keeps every table's meaning (the reorder rules).

Kernel: reorder_glyphs.reorder_glyphs, _sort_by_gid, ReorderCoverage.apply, ReorderList.apply,
util.bfs_base_table, util.require_fully_loaded on a real fully-decompiled TTFont (lookup zoo)
whose getGlyphID returns a SYMBOLIC glyph id per name. Each path condition is one relative
order of the glyphs the code compared; z3 decides sortedness under it.
Oracle: an independent table, written from the OpenType spec, of which arrays are parallel to
which coverage per (table type, format); plus a generic scan that finds every Coverage object.
"""
from __future__ import annotations

import z3
from fontTools.ttLib.tables import otTables as ot
from fontTools.ttLib.tables import otBase

from symx import core, shims
from symx.runner import Job, run_property
from harness import C11_zoo as ZOO

from nanoemoji import reorder_glyphs as RG
from nanoemoji import util as UTIL

# (type name, format) -> [(coverage attr path, parallel array attr path | None)], from the spec
SPEC = {
    ("SinglePos", 1): [("Coverage", None)],
    ("SinglePos", 2): [("Coverage", "Value")],
    ("PairPos", 1): [("Coverage", "PairSet")],
    ("PairPos", 2): [("Coverage", None)],
    ("CursivePos", 1): [("Coverage", "EntryExitRecord")],
    ("MarkBasePos", 1): [("MarkCoverage", "MarkArray.MarkRecord"), ("BaseCoverage", "BaseArray.BaseRecord")],
    ("MarkLigPos", 1): [("MarkCoverage", "MarkArray.MarkRecord"), ("LigatureCoverage", "LigatureArray.LigatureAttach")],
    ("MarkMarkPos", 1): [("Mark1Coverage", "Mark1Array.MarkRecord"), ("Mark2Coverage", "Mark2Array.Mark2Record")],
    ("ContextPos", 1): [("Coverage", "PosRuleSet")],
    ("ContextPos", 2): [("Coverage", None)],
    ("ContextPos", 3): [("Coverage", None)],
    ("ChainContextPos", 1): [("Coverage", "ChainPosRuleSet")],
    ("ChainContextPos", 2): [("Coverage", None)],
    ("ChainContextPos", 3): [("BacktrackCoverage", None), ("InputCoverage", None), ("LookAheadCoverage", None)],
    ("ContextSubst", 1): [("Coverage", "SubRuleSet")],
    ("ContextSubst", 2): [("Coverage", None)],
    ("ContextSubst", 3): [("Coverage", None)],
    ("ChainContextSubst", 1): [("Coverage", "ChainSubRuleSet")],
    ("ChainContextSubst", 2): [("Coverage", None)],
    ("ChainContextSubst", 3): [("BacktrackCoverage", None), ("InputCoverage", None), ("LookAheadCoverage", None)],
    ("ReverseChainSingleSubst", 1): [("Coverage", "Substitute"), ("BacktrackCoverage", None), ("LookAheadCoverage", None)],
    ("AttachList", None): [("Coverage", "AttachPoint")],
    ("LigCaretList", None): [("Coverage", "LigGlyph")],
    ("MarkGlyphSetsDef", None): [("Coverage", None)],
}
# lists keyed by a glyph inside each element
SPEC_LISTS = {("PairSet", None): ("PairValueRecord", "SecondGlyph")}


def dotted(v, path):
    for a in path.split("."):
        v = getattr(v, a)
    return v


def all_nodes(root):
    """Independent walk (not util.bfs_base_table): every BaseTable reachable through attributes."""
    seen, out, todo = set(), [], [root]
    while todo:
        v = todo.pop()
        if id(v) in seen or not isinstance(v, otBase.BaseTable):
            continue
        seen.add(id(v))
        out.append(v)
        for a, x in vars(v).items():
            if isinstance(x, otBase.BaseTable):
                todo.append(x)
            elif isinstance(x, list):
                todo.extend(y for y in x if isinstance(y, otBase.BaseTable))
    return out


def coverages_of(node):
    res = []
    for a, x in vars(node).items():
        if isinstance(x, ot.Coverage):
            res.append((a, x))
        elif isinstance(x, list) and x and all(isinstance(y, ot.Coverage) for y in x):
            for i, y in enumerate(x):
                res.append((f"{a}[{i}]", y))
    return res


def snapshot(root):
    """Before the reorder: for every node in SPEC, glyph name -> identity of its paired element."""
    snap = {}
    for node in all_nodes(root):
        key = (type(node).__name__, getattr(node, "Format", None))
        for cov_attr, par_attr in SPEC.get(key, []):
            if par_attr is None:
                continue
            c = dotted(node, cov_attr)
            par = dotted(node, par_attr)
            snap[(id(node), cov_attr)] = {g: (id(e) if not isinstance(e, str) else ("str", e)) for g, e in zip(c.glyphs, par)}
        if key in SPEC_LISTS:
            la, ka = SPEC_LISTS[key]
            snap[(id(node), la)] = sorted(id(e) for e in getattr(node, la))
    return snap


class FontView:
    """The real zoo TTFont seen through one focus table: keys()/[tag].table are restricted,
    getGlyphID is symbolic, setGlyphOrder is recorded."""

    def __init__(self, font, tag, focus, gid):
        self._font, self._tag, self._focus, self._gid = font, tag, focus, gid
        self.new_order = None
        self.lazy = False

    def keys(self):
        return [self._tag]

    def isLoaded(self, tag):
        return self._font.isLoaded(tag)

    def __getitem__(self, tag):
        return type("T", (), {"table": self._focus})()

    def getGlyphOrder(self):
        return self._font.getGlyphOrder()

    def setGlyphOrder(self, order):
        self.new_order = list(order)

    def getGlyphID(self, name):
        return self._gid[name]

    # other name->id entry points of TTFont a changed tree might use
    def getReverseGlyphMap(self, rebuild=False):
        return dict(self._gid)

    def getGlyphIDMany(self, names):
        return [self._gid[n] for n in names]

    def __getattr__(self, name):
        return getattr(self._font, name)


def focuses(font):
    out = []
    for tag in ("GPOS", "GSUB"):
        for li, lk in enumerate(font[tag].table.LookupList.Lookup):
            for si, st in enumerate(lk.SubTable):
                out.append((tag, f"{tag}.Lookup[{li}].SubTable[{si}]:{type(st).__name__}{getattr(st, 'Format', '')}", st))
    gdef = font["GDEF"].table
    for a in ("AttachList", "LigCaretList", "MarkGlyphSetsDef"):
        if getattr(gdef, a, None) is not None:
            out.append(("GDEF", f"GDEF.{a}", getattr(gdef, a)))
    return out


def sym_gids():
    n = len(ZOO.NAMES)
    gid = {}
    for name in ZOO.NAMES:
        gid[name] = core.integer(f"gid_{name.replace('.', '')}", 0, n - 1)
    core.assume(gid[".notdef"] == 0)
    ts = [gid[x].t for x in ZOO.NAMES]
    core.assume(core.SymBool(z3.Distinct(*ts)))
    return gid


def check_path(jc, r, root, gid, snap, inp, replay, label_prefix, key):
    # 1. every Coverage found by the generic scan is strictly increasing in gid
    sorted_conj = []
    unsupported = []
    for node in all_nodes(root):
        k = (type(node).__name__, getattr(node, "Format", None))
        covs = coverages_of(node)
        if covs and k not in SPEC and type(node).__name__ != "Coverage":
            unsupported.append(k)
        for a, c in covs:
            for x, y in zip(c.glyphs, c.glyphs[1:]):
                sorted_conj.append(gid[x].t < gid[y].t)
        if k in SPEC_LISTS:
            la, ka = SPEC_LISTS[k]
            lst = getattr(node, la)
            for x, y in zip(lst, lst[1:]):
                sorted_conj.append(gid[getattr(x, ka)].t < gid[getattr(y, ka)].t)
    if unsupported:
        raise core.HarnessError(f"oracle spec table has no entry for {unsupported}")
    jc.prove(r, z3.And(*sorted_conj) if sorted_conj else z3.BoolVal(True), f"{label_prefix}: every coverage (and PairSet) lists glyphs in increasing glyph id",
             inp, replay, key=key)
    # 2. pairing intact (names/identities are concrete on a path)
    ok = True
    detail = None
    for node in all_nodes(root):
        k = (type(node).__name__, getattr(node, "Format", None))
        for cov_attr, par_attr in SPEC.get(k, []):
            if par_attr is None:
                continue
            c, par = dotted(node, cov_attr), dotted(node, par_attr)
            was = snap[(id(node), cov_attr)]
            if len(par) != len(c.glyphs) or set(c.glyphs) != set(was):
                ok, detail = False, (k, cov_attr, "length/glyph set changed")
                continue
            for g, e in zip(c.glyphs, par):
                ident = id(e) if not isinstance(e, str) else ("str", e)
                if was[g] != ident:
                    ok, detail = False, (k, cov_attr, par_attr, f"glyph {g} is now paired with another glyph's element")
        if k in SPEC_LISTS:
            la, ka = SPEC_LISTS[k]
            if sorted(id(e) for e in getattr(node, la)) != snap[(id(node), la)]:
                ok, detail = False, (k, la, "elements lost or duplicated")
    jc.prove(r, z3.BoolVal(ok), f"{label_prefix}: arrays indexed by coverage stay paired with their glyphs", inp, replay, key=key)
    return detail


def replay_reorder(inp):
    """Concrete: apply the witness permutation with the real reorder_glyphs on a fresh zoo font
    and check sortedness/pairing on the real tables."""
    font = ZOO.build_zoo(inp.get("variant"))
    names = ZOO.NAMES
    gids = {n: int(inp.get(f"gid_{n.replace('.', '')}", i)) for i, n in enumerate(names)}
    if sorted(gids.values()) != list(range(len(names))) or gids[".notdef"] != 0:
        # complete a partial model into a permutation that keeps the relative order it fixes
        order = sorted(names, key=lambda n: (gids[n], names.index(n)))
        order.remove(".notdef")
        order = [".notdef"] + order
    else:
        order = sorted(names, key=lambda n: gids[n])
    snaps = {tag: snapshot(font[tag].table) for tag in ("GPOS", "GSUB", "GDEF")}
    try:
        RG.reorder_glyphs(font, order)
    except Exception as e:
        return {"order": order, "raised": repr(e)}
    pos = {n: i for i, n in enumerate(order)}
    bad = []
    for tag in ("GPOS", "GSUB", "GDEF"):
        root = font[tag].table
        for node in all_nodes(root):
            k = (type(node).__name__, getattr(node, "Format", None))
            for a, c in coverages_of(node):
                if [pos[g] for g in c.glyphs] != sorted(pos[g] for g in c.glyphs):
                    bad.append({"table": f"{tag}:{k}", "coverage": a, "glyphs": c.glyphs})
            for cov_attr, par_attr in SPEC.get(k, []):
                if par_attr is None:
                    continue
                c, par = dotted(node, cov_attr), dotted(node, par_attr)
                was = snaps[tag][(id(node), cov_attr)]
                for g, e in zip(c.glyphs, par):
                    ident = id(e) if not isinstance(e, str) else ("str", e)
                    if was.get(g) != ident:
                        bad.append({"table": f"{tag}:{k}", "array": par_attr, "glyph": g, "problem": "paired with another glyph's element"})
            if k in SPEC_LISTS:
                la, ka = SPEC_LISTS[k]
                lst = getattr(node, la)
                if [pos[getattr(x, ka)] for x in lst] != sorted(pos[getattr(x, ka)] for x in lst):
                    bad.append({"table": f"{tag}:{k}", "list": la})
    if font.getGlyphOrder() != order:
        bad.append({"glyph order not applied": font.getGlyphOrder()})
    return {"new_order": order, "problems": bad[:5]} if bad else None


def job_focus(jc):
    jc.encode(RG.reorder_glyphs, RG._sort_by_gid, RG.ReorderCoverage.apply, RG.ReorderList.apply, UTIL.bfs_base_table, UTIL.require_fully_loaded)
    idx = jc.params["index"]
    font = ZOO.build_zoo()
    tag, name, focus0 = focuses(font)[idx]
    inp = {f"gid_{n.replace('.', '')}": core.SymNum(z3.Int(f"gid_{n.replace('.', '')}")) for n in ZOO.NAMES}
    state = {}

    def body():
        f = ZOO.build_zoo()  # fresh tables for every path (the code mutates them in place)
        _, _, focus = focuses(f)[idx]
        gid = sym_gids()
        snap = snapshot(focus)
        view = FontView(f, tag, focus, gid)
        RG.reorder_glyphs(view, list(f.getGlyphOrder()))
        return focus, gid, snap, view

    results = jc.explore(body, max_paths=20000)
    for r in results:
        if not jc.no_exception(r, inp, replay_reorder, f"C11:{name}:raises"):
            continue
        focus, gid, snap, view = r.value
        jc.reach(r, "ok")
        check_path(jc, r, focus, gid, snap, inp, replay_reorder, name.split(":")[-1], f"C11:{name.split(':')[-1]}")
    jc.sample(focus=name, paths=len(results))
    jc.expect_reached("ok")


def job_whole_font(jc):
    """Traversal wiring: the whole zoo, glyph ids restricted to a few concrete permutations
    chosen by explicit nondeterminism (every coverage container and nested table is reached)."""
    jc.encode(RG.reorder_glyphs, UTIL.bfs_base_table)
    names = ZOO.NAMES
    perms = [
        list(range(len(names))),
        [0] + list(range(len(names) - 1, 0, -1)),
        [0] + [((i * 3) % (len(names) - 1)) + 1 for i in range(len(names) - 1)],
    ]
    inp = {f"gid_{n.replace('.', '')}": core.SymNum(z3.Int(f"gid_{n.replace('.', '')}")) for n in names}
    inp["variant"] = jc.params.get("variant")

    def body():
        f = ZOO.build_zoo(jc.params.get("variant"))
        k = core.choice(len(perms))
        gid = {n: core.integer(f"gid_{n.replace('.', '')}", 0, len(names) - 1) for n in names}
        for n, v in zip(names, perms[k]):
            core.assume(gid[n] == v)
        snaps = {tag: snapshot(f[tag].table) for tag in ("GPOS", "GSUB", "GDEF")}
        order = sorted(names, key=lambda n: perms[k][names.index(n)])
        f.getGlyphID = lambda name: gid[name]
        f.getReverseGlyphMap = lambda rebuild=False: dict(gid)
        f.getGlyphIDMany = lambda names: [gid[n] for n in names]
        RG.reorder_glyphs(f, order)
        return f, gid, snaps

    results = jc.explore(body)
    for r in results:
        if not jc.no_exception(r, inp, replay_reorder, "C11:whole:raises"):
            continue
        f, gid, snaps = r.value
        jc.reach(r, "ok")
        for tag in ("GPOS", "GSUB", "GDEF"):
            check_path(jc, r, f[tag].table, gid, snaps[tag], inp, replay_reorder, f"whole font {tag}", f"C11:whole:{tag}")
    jc.expect_reached("ok")


def job_static_crosscheck(jc):
    """Auxiliary, not the deciding step: every (type, format) that fontTools' otData describes with a
    Coverage-typed field inside GSUB/GPOS/GDEF is covered by the oracle's spec table and is present
    in the zoo."""
    from fontTools.ttLib.tables import otData

    font = ZOO.build_zoo()
    present = set()
    for tag in ("GPOS", "GSUB", "GDEF"):
        for node in all_nodes(font[tag].table):
            present.add((type(node).__name__, getattr(node, "Format", None)))
    missing_spec, missing_zoo = [], []
    for name, fields in otData.otData:
        base = name
        fmt = None
        if "Format" in name and name[-1].isdigit():
            base, fmt = name[: name.index("Format")], int(name[name.index("Format") + 6 :])
        has_cov = any(f[0] == "Offset" and f[1].endswith("Coverage") for f in fields)
        if not has_cov:
            continue
        if base.startswith("Math") or base in ("Coverage",) or base.startswith(("Extension", "Var", "Jstf", "BASE")):
            continue
        if base in ("SingleSubst", "MultipleSubst", "AlternateSubst", "LigatureSubst"):
            continue  # fontTools decompiles these into name-keyed dicts; it rebuilds the coverage itself
        if (base, fmt) not in SPEC:
            missing_spec.append((base, fmt))
        elif (base, fmt) not in present:
            missing_zoo.append((base, fmt))
    jc.paths += 1
    jc.q["total"] += 1
    jc.concrete_validations += 1
    if missing_spec or missing_zoo:
        jc.q["unknown"] += 1
        jc.inconclusive.append(f"static cross-check: not in oracle spec {missing_spec}; not in zoo {missing_zoo}")
    else:
        jc.q["unsat"] += 1
    jc.sample(spec_entries=len(SPEC), zoo_types=len(present))


# ---------------------------------------------------------------- util.load_fully: what reorder_glyphs is handed is really all in memory


def _many_pairs_font(lazy):
    """a font whose PairSet has more records than fontTools decodes eagerly, reopened with the given laziness"""
    from io import BytesIO
    from fontTools.fontBuilder import FontBuilder
    from fontTools.feaLib.builder import addOpenTypeFeaturesFromString
    from fontTools.pens.ttGlyphPen import TTGlyphPen
    from fontTools.ttLib import TTFont

    names = [".notdef"] + [f"g{i:02d}" for i in range(14)]
    fb = FontBuilder(1000, isTTF=True)
    fb.setupGlyphOrder(names)
    fb.setupCharacterMap({0x41 + i: n for i, n in enumerate(names[1:])})
    g = TTGlyphPen(None).glyph()
    fb.setupGlyf({n: g for n in names})
    fb.setupHorizontalMetrics({n: (500, 0) for n in names})
    fb.setupHorizontalHeader()
    fb.setupNameTable({})
    fb.setupOS2()
    fb.setupPost()
    fea = "feature kern {\n" + "".join(f"  pos g00 {n} {-10 * (i + 1)};\n" for i, n in enumerate(names[2:])) + "} kern;\n"
    addOpenTypeFeaturesFromString(fb.font, fea)
    b = BytesIO()
    fb.font.save(b)
    b.seek(0)
    return TTFont(b, lazy=lazy), names


def _undecoded(font):
    bad = []
    for tag in ("GPOS", "GSUB", "GDEF"):
        if tag not in font:
            continue
        for node in all_nodes(font[tag].table):
            for k, v in vars(node).items():
                if type(v).__name__ == "_LazyList":
                    bad.append(f"{tag}:{type(node).__name__}.{k}")
    return bad


def replay_load_fully(inp):
    lazy = {0: None, 1: True, 2: False}[int(inp["lazy"])]
    font, names = _many_pairs_font(lazy)
    try:
        out = UTIL.load_fully(font)
    except Exception as e:
        return {"lazy": lazy, "raised": repr(e)}
    bad = _undecoded(out)
    order = [names[0]] + names[:0:-1]
    try:
        RG.reorder_glyphs(out, order)
        err = None
    except Exception as e:
        err = repr(e)
    if out.lazy is not False or bad or err:
        return {"font opened with lazy": lazy, "load_fully(...).lazy": out.lazy, "arrays still undecoded": bad[:4], "reorder_glyphs on it": err}
    return None


def job_load_fully(jc):
    jc.encode(UTIL.load_fully, UTIL._reload)
    inp = {"lazy": core.SymNum(z3.Int("lazy"))}

    def body():
        return core.integer("lazy", 0, 2).concretize()

    for r in jc.explore(body):
        k = r.value
        jc.reach(r, f"lazy={k}")
        jc.prove(r, z3.BoolVal(replay_load_fully({"lazy": k}) is None), "load_fully returns a font opened with lazy=False whose arrays are all decoded, so that reordering sees every record (PairSet with 13 records)", inp, replay_load_fully, key="C11:load_fully")
    jc.expect_reached("lazy=0", "lazy=1", "lazy=2")



# ---------------------------------------------------------------- the same font object reordered more than once (glue steps do this)

TWICE_PERMS = [
    lambda n: [0] + list(range(n - 1, 0, -1)),
    lambda n: [0] + [((i * 3) % (n - 1)) + 1 for i in range(n - 1)],
    lambda n: [0] + [((i * 5 + 2) % (n - 1)) + 1 for i in range(n - 1)],
    lambda n: list(range(n)),
]


def _reorder_steps(ks):
    """apply permutations ks[0], ks[1], ... to ONE zoo font object; -> problems found after the last step"""
    font = ZOO.build_zoo()
    names = ZOO.NAMES
    snaps = {tag: snapshot(font[tag].table) for tag in ("GPOS", "GSUB", "GDEF")}
    order = list(names)
    for k in ks:
        perm = TWICE_PERMS[k](len(names))
        order = [order[i] for i in perm]
        RG.reorder_glyphs(font, order)
    pos = {n: i for i, n in enumerate(order)}
    bad = []
    for tag in ("GPOS", "GSUB", "GDEF"):
        for node in all_nodes(font[tag].table):
            k = (type(node).__name__, getattr(node, "Format", None))
            for a, c in coverages_of(node):
                if [pos[g] for g in c.glyphs] != sorted(pos[g] for g in c.glyphs):
                    bad.append({"table": f"{tag}:{k}", "coverage": a, "glyphs": c.glyphs})
            for cov_attr, par_attr in SPEC.get(k, []):
                if par_attr is None:
                    continue
                c, par = dotted(node, cov_attr), dotted(node, par_attr)
                was = snaps[tag][(id(node), cov_attr)]
                for g, e in zip(c.glyphs, par):
                    ident = id(e) if not isinstance(e, str) else ("str", e)
                    if was.get(g) != ident:
                        bad.append({"table": f"{tag}:{k}", "array": par_attr, "glyph": g, "problem": "paired with another glyph's element"})
    if font.getGlyphOrder() != order:
        bad.append({"glyph order not applied": font.getGlyphOrder()})
    return order, bad


def replay_reorder_steps(inp):
    ks = [int(inp[f"p{i}"]) for i in range(inp["steps"])]
    try:
        order, bad = _reorder_steps(ks)
    except Exception as e:
        return {"permutations": ks, "raised": repr(e)}
    return {"permutations applied in turn": ks, "final order": order, "problems": bad[:4]} if bad else None


def job_reorder_steps(jc):
    """reorder_glyphs applied two or three times to one font object (choice of permutations = solver variables, forked):
    after the last step every coverage is sorted by the FINAL glyph ids and every parallel array still pairs up."""
    jc.encode(RG.reorder_glyphs, RG._sort_by_gid, RG.ReorderCoverage.apply, RG.ReorderList.apply)
    steps = jc.params["steps"]
    inp = {"steps": steps}
    for i in range(steps):
        inp[f"p{i}"] = core.SymNum(z3.Int(f"p{i}"))

    def body():
        return [core.integer(f"p{i}", 0, len(TWICE_PERMS) - 1).concretize() for i in range(steps)]

    for r in jc.explore(body, max_paths=200):
        ks = r.value
        jc.reach(r, "ok")
        try:
            _, bad = _reorder_steps(ks)
            err = None
        except Exception as e:
            bad, err = [], e
        jc.prove(r, z3.BoolVal(not bad and err is None), "reordering the same font again sorts by the new glyph ids (no state kept from the previous order)", inp, replay_reorder_steps, key="C11:reorder-steps")
    jc.expect_reached("ok")



def jobs(tier):
    font = ZOO.build_zoo()
    js = [Job(f"focus[{name}]", job_focus, index=i) for i, (tag, name, st) in enumerate(focuses(font))]
    js.append(Job("whole_font", job_whole_font))
    js.append(Job("whole_font[empty lookup first]", job_whole_font, variant="empty lookup first"))
    js.append(Job("static_crosscheck", job_static_crosscheck))
    js.append(Job("load_fully", job_load_fully))
    js.append(Job("reorder twice", job_reorder_steps, steps=2))
    if tier != "quick":
        js.append(Job("reorder three times", job_reorder_steps, steps=3))
    # the regrouping that triggers the reorder (svg._ensure_groups_grouped_in_glyph_order): the new glyph order and
    # the glyph ids written into the documents must be one and the same numbering
    from harness import C02

    for sc in C02.SCENARIOS:
        if sc.startswith("reuse across glyphs") or sc.startswith("three unrelated"):
            js.append(Job(f"svg docs[{sc}]", C02.job_docs, scenario=sc, affine="translation"))
    from harness import C12

    js += C12.copy_svg_jobs(tier)
    return js


def main(tier):
    return run_property(
        "C11",
        jobs(tier),
        tier=tier,
        explanation="Bounded symbolic execution of reorder_glyphs and its rules on a real fully-decompiled TTFont (lookup zoo: every GSUB/GPOS/GDEF lookup type and format with a coverage) whose getGlyphID returns a symbolic glyph id per name: every feasible path is one relative order of the compared glyphs, and z3 decides that every coverage is strictly increasing under it; pairing of parallel arrays is checked by object identity.",
        bounds={"glyphs": f"{len(ZOO.NAMES)} glyph names, all permutations keeping .notdef first (symbolic distinct gids)", "coverage size": "<= 5 glyphs per coverage",
                "tables": "one job per lookup subtable / GDEF list (the rules are table-local) plus a whole-font traversal job on 3 permutations"},
        outside=["binary compile + reload by fontTools", "ClassDef/dict-keyed lookups fontTools rebuilds itself (Single/Multiple/Alternate/LigatureSubst)", "MATH"],
        assumptions=["hand-built Context*/ChainContext* format 1-2 subtables stand in for fonts that contain them (feaLib never emits them)"],
        shims=[],
        stubs=["TTFont view: keys()/[tag].table restricted to the focus table, getGlyphID symbolic, setGlyphOrder recorded"],
        budget_s=900 if tier == "quick" else 3400,
    )
