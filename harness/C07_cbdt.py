"""CBDT/CBLC run and offset arithmetic (shared by C07 and C14).

Kernel: bitmap_tables.make_cbdt_table (sorting, run splitting), _make_cbdt_strike (gid fields,
names), _cbdt_bitmapdata_offsets, _cbdt_record_size -- real fontTools strike objects, stub
glyphs with SYMBOLIC glyph ids and concrete PNG byte lengths.
"""
from __future__ import annotations

import itertools

import z3

from symx import core, shims
from symx.runner import Job

from nanoemoji import bitmap_tables as BT
from nanoemoji.config import FontConfig
from fontTools import ttLib


class Png(bytes):
    """bytes subclass with a .size, as nanoemoji.png.PNG (without Pillow)."""

    def __new__(cls, n, size=(128, 128)):
        self = super().__new__(cls, bytes([n % 251]) * n)
        self.size = size
        return self

    def __deepcopy__(self, memo):
        return self  # immutable payload (fontTools deep-copies strike templates that reach it)

    def __copy__(self):
        return self


class G:
    def __init__(self, gid, png, name):
        self.glyph_id = gid
        self.bitmap = png
        self.bitmap_filename = name


class Font(dict):
    """TTFont stand-in (a donor in the glue jobs): glyph N is called glyphNNNNN."""

    def getGlyphName(self, gid):
        if isinstance(gid, core.SymNum):
            return f"glyph{gid}"  # token string: names stay symbolic
        return f"glyph{gid:05d}"

    def getGlyphID(self, name):
        return 0 if name == ".notdef" else int(name[len("glyph"):])

    def getGlyphOrder(self):
        names = {n for s in self["CBLC"].strikes for sub in s.indexSubTables for n in sub.names} if "CBLC" in self else set()
        top = max([self.getGlyphID(n) for n in names], default=0)
        return [".notdef"] + [f"glyph{i:05d}" for i in range(1, top + 1)]


LENS = [37, 120, 5, 64, 91]


def run_cbdt(gids):
    cfg = FontConfig()._replace(color_format="cbdt", bitmap_resolution=128)
    font = Font()
    glyphs = [G(g, Png(LENS[i]), f"f{i}.png") for i, g in enumerate(gids)]
    BT.make_cbdt_table(cfg, font, glyphs)
    return glyphs, font


def observe(glyphs, font):
    """[(start, end, names, locations)] per strike + the data dicts."""
    out = []
    for strike, data in zip(font["CBLC"].strikes, font["CBDT"].strikeData):
        (sub,) = strike.indexSubTables
        out.append((strike.bitmapSizeTable.startGlyphIndex, strike.bitmapSizeTable.endGlyphIndex, list(sub.names), list(sub.locations), data))
    return out


def replay_cbdt(inp):
    gids = [int(inp[f"gid{i}"]) for i in range(inp["n"])]
    perm = inp.get("perm") or list(range(len(gids)))
    gl = [gids[i] for i in perm]
    try:
        glyphs, font = run_cbdt(gl)
    except Exception as e:
        return {"gids": gl, "raised": repr(e)}
    obs = observe(glyphs, font)
    by_gid = {g.glyph_id: g for g in glyphs}
    srt = sorted(gl)
    # expected runs
    runs, cur = [], [srt[0]]
    for g in srt[1:]:
        if g == cur[-1] + 1:
            cur.append(g)
        else:
            runs.append(cur)
            cur = [g]
    runs.append(cur)
    off = BT.CBDT_HEADER_SIZE
    bad = []
    if len(obs) != len(runs):
        bad.append({"strikes": [(a, b) for a, b, *_ in obs], "expected_runs": runs})
    else:
        for (start, end, names, locs, data), run in zip(obs, runs):
            if (start, end) != (run[0], run[-1]) or names != [f"glyph{g:05d}" for g in run]:
                bad.append({"strike": [start, end, names], "expected": run})
            for g, (a, b) in zip(run, locs):
                if a != off or b != off + 9 + len(by_gid[g].bitmap):
                    bad.append({"gid": g, "location": [a, b], "expected": [off, off + 9 + len(by_gid[g].bitmap)]})
                off = b
                d = data.get(f"glyph{g:05d}")
                if d is None or d.imageData is not by_gid[g].bitmap:
                    bad.append({"gid": g, "image": "missing or not this glyph's PNG"})
            if len(locs) != len(run):
                bad.append({"locations": len(locs), "run": len(run)})
    return {"gids": gl, "problems": bad[:4]} if bad else None


def job_cbdt(jc):
    jc.encode(BT.make_cbdt_table, BT._make_cbdt_strike, BT._cbdt_bitmapdata_offsets, BT._cbdt_record_size)
    n = jc.params["n"]
    perm = jc.params["perm"]
    inp = {"n": n, "perm": list(perm)}
    for i in range(n):
        inp[f"gid{i}"] = core.SymNum(z3.Int(f"gid{i}"))

    def body():
        # strictly increasing symbolic gids with symbolic gaps; presented in order `perm`
        gids = [core.integer(f"gid{i}", 1, 60000) for i in range(n)]
        for a, b in zip(gids, gids[1:]):
            core.assume(a < b)
        gl = [gids[i] for i in perm]
        glyphs, font = run_cbdt(gl)
        return gids, glyphs, observe(glyphs, font)

    saved = core.SymNum.__hash__
    core.SymNum.__hash__ = lambda self: 0  # dict keyed by glyph_id: equality decides
    try:
        results = jc.explore(body, catch=(AssertionError,))
    finally:
        core.SymNum.__hash__ = saved
    for r in results:
        if not jc.no_exception(r, inp, replay_cbdt, "C07:cbdt:raises"):
            continue
        gids, glyphs, obs = r.value
        by_name = {}
        conj = []
        # gap pattern on this path is decided by the path condition; express the spec symbolically
        g = [core.as_term(x) for x in gids]
        lens = {id(gl): len(gl.bitmap) for gl in glyphs}
        glyph_of = {i: [gl for gl in glyphs if gl.glyph_id is gids[i]][0] for i in range(n)}
        # flatten observed (gid-ordered) sequence of (strike index, name, location)
        flat = []
        for si, (start, end, names, locs, data) in enumerate(obs):
            conj.append(z3.BoolVal(len(names) == len(locs)))
            for k, (nm, loc) in enumerate(zip(names, locs)):
                flat.append((si, k, nm, loc, data))
        conj.append(z3.BoolVal(len(flat) == n))
        if len(flat) == n:
            off = BT.CBDT_HEADER_SIZE
            for i, (si, k, nm, loc, data) in enumerate(flat):
                start, end = obs[si][0], obs[si][1]
                # i-th smallest gid sits at position k of strike si: gid == start + k
                conj.append(g[i] == core.as_term(start) + k)
                want_len = 9 + lens[id(glyph_of[i])]
                conj.append(z3.And(core.as_term(loc[0]) == off, core.as_term(loc[1]) == off + want_len))
                off += want_len
                d = data.get(nm)
                conj.append(z3.BoolVal(d is not None and d.imageData is glyph_of[i].bitmap))
                if k == len(obs[si][2]) - 1:
                    conj.append(core.as_term(end) == g[i])
                    if i + 1 < n:
                        conj.append(g[i + 1] > g[i] + 1)  # runs are maximal
                else:
                    conj.append(g[i + 1] == g[i] + 1)
        jc.reach(r, f"{len(obs)} strikes")
        jc.prove(r, z3.And(*conj), "CBLC strikes = maximal runs of consecutive gids; one bitmap per glyph; locations contiguous from header; image identity",
                 inp, replay_cbdt, key="C07:cbdt:runs")
        jc.sample(n=n, perm=list(perm), strikes=len(obs))
    jc.expect_reached("1 strikes")
    if n >= 2:
        jc.expect_reached("2 strikes")


def jobs(tier, prop="C07"):
    js = []
    ns = (1, 2, 3) if tier == "quick" else (1, 2, 3, 4, 5)
    for n in ns:
        perms = list(itertools.permutations(range(n)))
        if tier == "quick" and n == 3:
            perms = perms[:6]
        if n >= 4:
            perms = perms[:: max(1, len(perms) // 8)]
        for perm in perms:
            js.append(Job(f"cbdt_runs[n={n},order={perm}]", job_cbdt, n=n, perm=perm))
    return js


# ------------------------------------------------------------------ glue_together._copy_cbdt


class TargetFont(dict):
    """Target font stub: concrete glyph names, SYMBOLIC glyph ids."""

    def __init__(self, names, gid):
        super().__init__()
        self._names, self._gid = names, gid

    def getGlyphOrder(self):
        return list(self._names)

    def getGlyphID(self, name):
        return self._gid[name]


def _donor(n):
    """A donor font whose CBDT/CBLC were built by the real make_cbdt_table (concrete gids 1..n)."""
    cfg = FontConfig()._replace(color_format="cbdt", bitmap_resolution=128)
    font = Font()
    glyphs = [G(i + 1, Png(LENS[i], size=(100 + 7 * i, 128)), f"f{i}.png") for i in range(n)]
    BT.make_cbdt_table(cfg, font, glyphs)
    return font, glyphs


def replay_copy_cbdt(inp):
    from nanoemoji import glue_together as GT

    n = inp["n"]
    donor, glyphs = _donor(n)
    names = [f"glyph{i + 1:05d}" for i in range(n)]
    gids = [int(inp[f"tg{i}"]) for i in range(n)]
    if len(set(gids)) != n:
        return None
    target = TargetFont(names + ["zz"], dict(zip(names, gids)))
    try:
        GT._copy_cbdt(target, donor)
    except Exception as e:
        return {"raised": repr(e)}
    order = sorted(range(n), key=lambda i: gids[i])
    runs, cur = [], [order[0]]
    for i in order[1:]:
        if gids[i] == gids[cur[-1]] + 1:
            cur.append(i)
        else:
            runs.append(cur)
            cur = [i]
    runs.append(cur)
    strikes = target["CBLC"].strikes
    bad = []
    if [list(s.indexSubTables[0].names) for s in strikes] != [[names[i] for i in run] for run in runs]:
        bad.append({"strike names": [list(s.indexSubTables[0].names) for s in strikes], "expected runs": [[names[i] for i in run] for run in runs]})
    if len({id(s.bitmapSizeTable) for s in strikes}) != len(strikes) or len({id(s.indexSubTables[0]) for s in strikes}) != len(strikes):
        bad.append({"aliasing": "strikes share one bitmapSizeTable/index subtable object; the compiled records would all describe the last run"})
    off = BT.CBDT_HEADER_SIZE
    for s, data in zip(strikes, target["CBDT"].strikeData):
        for nm, (a, b) in zip(s.indexSubTables[0].names, s.indexSubTables[0].locations):
            g = glyphs[names.index(nm)]
            if (a, b) != (off, off + 9 + len(g.bitmap)) or data[nm].imageData is not g.bitmap:
                bad.append({"glyph": nm, "location": [a, b], "expected": [off, off + 9 + len(g.bitmap)]})
            off = b
    return {"target gids": gids, "problems": bad[:4]} if bad else None


def job_copy_cbdt(jc):
    from nanoemoji import glue_together as GT

    jc.encode(GT._copy_cbdt, GT._cbdt_data_and_sizes)
    n = jc.params["n"]
    inp = {"n": n}
    for i in range(n):
        inp[f"tg{i}"] = core.SymNum(z3.Int(f"tg{i}"))
    names = [f"glyph{i + 1:05d}" for i in range(n)]

    def body():
        donor, glyphs = _donor(n)
        gids = [core.integer(f"tg{i}", 1, 60000) for i in range(n)]
        core.assume(core.SymBool(z3.Distinct(*[g.t for g in gids])) if n > 1 else True)
        target = TargetFont(names + ["zz"], dict(zip(names, gids)))
        GT._copy_cbdt(target, donor)
        return gids, glyphs, target

    results = jc.explore(body, catch=(AssertionError, ValueError), max_paths=5000)
    for r in results:
        if not jc.no_exception(r, inp, replay_copy_cbdt, "C07:copy_cbdt:raises"):
            continue
        gids, glyphs, target = r.value
        strikes = target["CBLC"].strikes
        jc.reach(r, f"{len(strikes)} strikes")
        conj = [z3.BoolVal(len({id(s.bitmapSizeTable) for s in strikes}) == len(strikes) and len({id(s.indexSubTables[0]) for s in strikes}) == len(strikes))]
        flat = []
        for si, (s, data) in enumerate(zip(strikes, target["CBDT"].strikeData)):
            sub = s.indexSubTables[0]
            conj.append(z3.BoolVal(len(sub.names) == len(sub.locations) and set(data) == set(sub.names)))
            adv = [glyphs[names.index(nm)].bitmap.size[0] for nm in sub.names]
            for k, (nm, loc) in enumerate(zip(sub.names, sub.locations)):
                flat.append((si, k, nm, loc, data, len(sub.names)))
        conj.append(z3.BoolVal(sorted(x[2] for x in flat) == sorted(names)))
        off = BT.CBDT_HEADER_SIZE
        for idx, (si, k, nm, loc, data, ln) in enumerate(flat):
            i = names.index(nm)
            want = 9 + len(glyphs[i].bitmap)
            conj.append(z3.BoolVal((loc[0], loc[1]) == (off, off + want) and data[nm].imageData is glyphs[i].bitmap))
            off += want
            if idx + 1 < len(flat):
                j = names.index(flat[idx + 1][2])
                if flat[idx + 1][0] == si:
                    conj.append(gids[j].t == gids[i].t + 1)
                else:
                    conj.append(gids[j].t > gids[i].t + 1)
        jc.prove(r, z3.And(*conj), "_copy_cbdt: strikes = maximal runs of consecutive TARGET gids in gid order, own size/index tables, one bitmap per glyph, contiguous locations",
                 inp, replay_copy_cbdt, key="C07:copy_cbdt:runs")
    jc.expect_reached("1 strikes")
    if n >= 2:
        jc.expect_reached("2 strikes")


def copy_jobs(tier):
    return [Job(f"copy_cbdt[n={n}]", job_copy_cbdt, n=n) for n in ((1, 2, 3) if tier == "quick" else (1, 2, 3, 4))]
