"""C12: maximum_color adds colour tables without altering the font (nanoemoji's own steps).

K1  glue_together._copy_svg: new glyph order keeps every donor SVG glyph at its donor gid.
K2  glue_together._copy_cbdt (shared with C07); K3 _copy_colr bookkeeping.
K4  maximum_color.WriteFontInputs tag/version/format mapping; extract_svgs.svg_glyphs splitting.
K5  picture equality COLR->SVG is C13 (subset run here); layout meaning after the reorder is C11.
"""
from __future__ import annotations

import z3

from symx import core, shims
from symx.runner import Job, run_property
from oracle import paint_semantics as ps

from nanoemoji import glue_together as GT
from nanoemoji import extract_svgs as XS
from nanoemoji import maximum_color as MC

NAMES = [".notdef", "a", "b", "c", "d", "e", "f"]


class StubFont(dict):
    def __init__(self, order):
        super().__init__()
        self._order = list(order)
        self.lazy = False

    def keys(self):
        return [k for k in dict.keys(self)]

    def isLoaded(self, t):
        return True

    def getGlyphOrder(self):
        return list(self._order)

    def setGlyphOrder(self, o):
        self._order = list(o)

    def getGlyphName(self, gid):
        return self._order[gid]

    def getGlyphID(self, name):
        return self._order.index(name)


class Tbl:
    def __init__(self, **k):
        self.__dict__.update(k)


def replay_copy_svg(inp):
    donor_order, ranges, target_order = inp["donor_order"], inp["ranges"], inp["target_order"]
    donor = StubFont(donor_order)
    donor["SVG "] = Tbl(docList=[("<svg/>", lo, hi) for lo, hi in ranges])
    target = StubFont(target_order)
    try:
        GT._copy_svg(target, donor)
    except Exception as e:
        return {"raised": repr(e)}
    new = target.getGlyphOrder()
    bad = {}
    if sorted(new) != sorted(target_order):
        bad["not a permutation"] = new
    svg = [(g, donor_order[g]) for lo, hi in ranges for g in range(lo, hi + 1)]
    for gid, name in svg:
        if gid >= len(new) or new[gid] != name:
            bad[name] = {"donor gid": gid, "new order": new}
    rest_new = [n for n in new if n not in {n for _, n in svg}]
    rest_old = [n for n in target_order if n not in {n for _, n in svg}]
    if rest_new != rest_old:
        bad["other glyphs reordered"] = [rest_new, rest_old]
    if new[0] != ".notdef":
        bad[".notdef"] = new[0]
    return bad or None


def job_copy_svg(jc):
    jc.encode(GT._copy_svg, GT._svg_glyphs)
    perm = jc.params["target_perm"]
    donor_order = list(NAMES)
    target_order = [NAMES[i] for i in perm]

    def body():
        # one or two documents with symbolic (small) ranges; concretised by forking
        lo1 = core.integer("lo1", 1, 4)
        hi1 = core.integer("hi1", 1, 5)
        core.assume(lo1 <= hi1)
        two = core.choice(2)
        ranges = [(lo1.concretize(), hi1.concretize())]
        if two:
            lo2 = core.integer("lo2", 2, 6)
            hi2 = core.integer("hi2", 2, 6)
            core.assume(core.sym_and(lo2 <= hi2, lo2 > hi1))
            ranges.append((lo2.concretize(), hi2.concretize()))
        donor = StubFont(donor_order)
        donor["SVG "] = Tbl(docList=[("<svg/>", lo, hi) for lo, hi in ranges])
        target = StubFont(target_order)
        GT._copy_svg(target, donor)
        return ranges, target.getGlyphOrder(), target

    results = jc.explore(body, catch=(ValueError, IndexError, AssertionError))
    for r in results:
        if r.exc is not None:
            jc.inconclusive.append(f"_copy_svg raised {r.exc!r}")
            continue
        ranges, new, target = r.value
        jc.reach(r, f"{len(ranges)} docs")
        inp = {"donor_order": donor_order, "ranges": [list(x) for x in ranges], "target_order": target_order}
        svg = [(g, donor_order[g]) for lo, hi in ranges for g in range(lo, hi + 1)]
        names = {n for _, n in svg}
        ok = sorted(new) == sorted(target_order) and all(g < len(new) and new[g] == n for g, n in svg)
        ok = ok and [n for n in new if n not in names] == [n for n in target_order if n not in names] and new[0] == ".notdef" and target.get("SVG ") is not None
        jc.prove(r, z3.BoolVal(ok), "_copy_svg: permutation of the target order, every donor SVG glyph at its donor gid, others keep relative order, .notdef first",
                 inp, replay_copy_svg, key="C12:copy_svg")
    jc.expect_reached("1 docs", "2 docs")


class _Glyf:
    def __init__(self, glyphs):
        self.glyphs = dict(glyphs)

    def __getitem__(self, k):
        return self.glyphs[k]


class _Hmtx:
    def __init__(self, m):
        self.metrics = dict(m)

    def __getitem__(self, k):
        return self.metrics[k]

    def __setitem__(self, k, v):
        self.metrics[k] = v


def _copy_colr_case(adv_a, adv_new, same, version):
    donor = StubFont([".notdef", "a", "b", "a.0", "b.0"])
    donor["glyf"] = _Glyf({n: f"donor:{n}" for n in donor.getGlyphOrder()})
    donor["hmtx"] = _Hmtx({"a": (adv_a, 0), "b": (700, 0), "a.0": (adv_new, 0), "b.0": (adv_new, 1)})
    donor["CPAL"] = Tbl(palettes=[["donor-pal"]])
    if version == 1:
        donor["COLR"] = Tbl(version=1)
    else:
        donor["COLR"] = Tbl(version=0, ColorLayers={"a": [Tbl(name="a.0")], "b": [Tbl(name="b.0"), Tbl(name="a.0")]})
    target = StubFont([".notdef", "a", "b", "zz"])
    target["glyf"] = _Glyf({n: f"target:{n}" for n in target.getGlyphOrder()})
    target["hmtx"] = _Hmtx({"a": (adv_a, 0), "b": (700, 0), "zz": (1, 1)})
    if same:
        target["CPAL"] = Tbl(palettes=[["old0"], ["old1"]])
    with shims.installed([shims.Shim("nanoemoji.glue_together", "paints_of_type", lambda font, fmt: [Tbl(Glyph="b.0"), Tbl(Glyph="a.0"), Tbl(Glyph="a.0")], "COLR walk (fontTools) not under test")]):
        GT._copy_colr(target, donor)
    return target, donor


def _copy_colr_structure(target, donor, same):
    order = target.getGlyphOrder()
    ok = order == [".notdef", "a", "b", "zz", "a.0", "b.0"] and target["glyf"].glyphs["a"] == "target:a" and target["glyf"].glyphs["a.0"] == "donor:a.0"
    ok = ok and target["COLR"] is donor["COLR"] and target["hmtx"].metrics["zz"] == (1, 1)
    if same:
        return ok and target["CPAL"].palettes == [["donor-pal"], ["old1"]]
    return ok and target["CPAL"] is donor["CPAL"]


def replay_copy_colr(inp):
    a, n, same, version = int(inp["adv_a"]), int(inp["adv_new"]), int(inp["same"]), inp["version"]
    try:
        target, donor = _copy_colr_case(a, n, same, version)
    except Exception as e:
        return {"raised": repr(e)}
    if not _copy_colr_structure(target, donor, same) or target["hmtx"].metrics["a"][0] != a or target["hmtx"].metrics["a.0"][0] != n:
        return {"glyph order": target.getGlyphOrder(), "hmtx": {k: list(v) for k, v in target["hmtx"].metrics.items()}, "palettes": repr(getattr(target["CPAL"], "palettes", None)),
                "COLR is donor's": target["COLR"] is donor["COLR"]}
    return None


def job_copy_colr(jc):
    jc.encode(GT._copy_colr)
    version = jc.params["version"]
    inp = {"version": version, "adv_a": core.SymNum(z3.Int("adv_a")), "adv_new": core.SymNum(z3.Int("adv_new")), "same": core.SymNum(z3.Int("same"))}

    def body():
        adv_a = core.integer("adv_a", 0, 4000)
        adv_new = core.integer("adv_new", 0, 4000)
        same = core.integer("same", 0, 1).concretize()
        target, donor = _copy_colr_case(adv_a, adv_new, same, version)
        return adv_a, adv_new, same, target, donor

    results = jc.explore(body, catch=(AssertionError,))
    for r in results:
        if not jc.no_exception(r, inp, replay_copy_colr, "C12:copy_colr:raises"):
            continue
        adv_a, adv_new, same, target, donor = r.value
        jc.reach(r, "ok")
        conj = [z3.BoolVal(_copy_colr_structure(target, donor, same)), core.as_term(target["hmtx"].metrics["a"][0]) == core.as_term(adv_a), core.as_term(target["hmtx"].metrics["a.0"][0]) == core.as_term(adv_new)]
        jc.prove(r, z3.And(*conj), "_copy_colr: existing glyphs/advances untouched, layer glyphs appended once (sorted), palette 0 replaced only, COLR taken from donor", inp, replay_copy_colr, key="C12:copy_colr")
    jc.expect_reached("ok")


def replay_svg_glyphs(inp):
    lo, span = int(inp["lo"]), int(inp["span"])
    gids = list(range(lo, lo + span + 1))
    doc = '<svg xmlns="http://www.w3.org/2000/svg"><defs/>' + "".join(f'<g id="glyph{g}"><path d="M0,0 L{g},0 L0,{g} Z"/></g>' for g in gids) + "</svg>"
    font = {"SVG ": Tbl(docList=[(doc, gids[0], gids[-1])])}
    out = list(XS.svg_glyphs(font))
    bad = {}
    if sorted(g for g, _ in out) != gids:
        bad["gids"] = [g for g, _ in out]
    for g, svg in out:
        ids = [el.attrib["id"] for el in svg.svg_root.iter() if isinstance(el.tag, str) and el.attrib.get("id", "").startswith("glyph")]
        if ids != [f"glyph{g}"]:
            bad[g] = ids
    return bad or None


def job_svg_glyphs(jc):
    jc.encode(XS.svg_glyphs, XS._remove_glyph_elements)
    inp = {"lo": core.SymNum(z3.Int("lo")), "span": core.SymNum(z3.Int("span"))}

    def body():
        # wide enough that one glyph id is a decimal prefix of another in the same document (2 and 20..29, 10 and 100..)
        lo = core.integer("lo", 1, 11).concretize()
        span = core.integer("span", 0, 20 if jc.tier == "quick" else 60).concretize()
        gids = list(range(lo, lo + span + 1))
        doc = '<svg xmlns="http://www.w3.org/2000/svg"><defs/>' + "".join(f'<g id="glyph{g}"><path d="M0,0 L{g},0 L0,{g} Z"/></g>' for g in gids) + "</svg>"
        font = {"SVG ": Tbl(docList=[(doc, gids[0], gids[-1])])}
        return gids, list(XS.svg_glyphs(font))

    results = jc.explore(body, max_paths=5000)
    for r in results:
        if not jc.no_exception(r, inp, replay_svg_glyphs, "C12:svg_glyphs:raises"):
            continue
        gids, out = r.value
        jc.reach(r, f"span {len(gids)}")
        ok = sorted(g for g, _ in out) == gids
        for g, svg in out:
            ids = [el.attrib["id"] for el in svg.svg_root.iter() if isinstance(el.tag, str) and el.attrib.get("id", "").startswith("glyph")]
            ok = ok and ids == [f"glyph{g}"]
        jc.prove(r, z3.BoolVal(ok), "svg_glyphs: one document per glyph id containing exactly that glyph's element", inp, replay_svg_glyphs, key="C12:svg_glyphs")
    jc.expect_reached("span 1", "span 2", "span 3")


def job_inputs_mapping(jc):
    jc.encode(MC.WriteFontInputs.for_tag, MC.WriteFontInputs)
    bad = {}
    for tag, ver, want in (("SVG ", None, "picosvg"), ("COLR", 0, "glyf_colr_0"), ("COLR", 1, "glyf_colr_1"), ("CBDT", None, "cbdt")):
        wfi = MC.WriteFontInputs.for_tag(tag, ver)
        if wfi.color_format != want or wfi.table_tag != f"{tag.strip():4}" or wfi.table_version != ver:
            bad[f"{tag}{ver}"] = [wfi.color_format, wfi.table_tag, wfi.table_version]
    for ver in (2, -1, 7):
        try:
            MC.WriteFontInputs.for_tag("COLR", ver).color_format
            bad[f"COLR{ver}"] = "accepted"
        except ValueError:
            pass
    jc.paths += 1
    jc.q["total"] += 1
    jc.concrete_validations += 1
    if bad:
        jc.q["sat"] += 1
        jc.violation("C12:inputs-mapping", "table tag/version/format mapping", {}, bad)
    else:
        jc.q["unsat"] += 1


# ------------------------------------------------------------ metrics handed to the table-building run


class _MetricsFont(dict):
    """TTFont stand-in for write_config_for_mergeable / glyph_region: head, OS/2, hhea, hmtx attribute bags."""

    def __init__(self, upem, tasc, tdesc, hasc, hdesc, fs, adv):
        import types

        super().__init__()
        self["head"] = types.SimpleNamespace(unitsPerEm=upem)
        self["OS/2"] = types.SimpleNamespace(sTypoAscender=tasc, sTypoDescender=tdesc, fsSelection=fs, usWinAscent=hasc, usWinDescent=-hdesc)
        self["hhea"] = types.SimpleNamespace(ascent=hasc, descent=hdesc, ascender=hasc, descender=hdesc)
        self["hmtx"] = {"g": (adv, 0)}


def _written_config(font, argv=("x", "in.ttf", "out.toml")):
    """Run the real write_config_for_mergeable.main; -> the text it writes."""
    import io
    import types
    from nanoemoji import write_config_for_mergeable as WCM

    buf = io.StringIO()
    buf.close = lambda: None
    ctxmgr = types.SimpleNamespace(__enter__=lambda *a: buf, __exit__=lambda *a: False)

    class _Open:
        def __call__(self, *a, **k):
            return self

        def __enter__(self):
            return buf

        def __exit__(self, *a):
            return False

    saved = (WCM.ttLib, WCM.FLAGS, getattr(WCM, "open", None))
    WCM.ttLib = types.SimpleNamespace(TTFont=lambda *a, **k: font)
    WCM.FLAGS = types.SimpleNamespace(color_format="glyf_colr_1")
    WCM.open = _Open()
    try:
        WCM.main(list(argv))
    finally:
        WCM.ttLib, WCM.FLAGS = saved[0], saved[1]
        if saved[2] is None:
            del WCM.open
        else:
            WCM.open = saved[2]
    return buf.getvalue()


def _cfg_numbers(text, tokens=None):
    import re

    out = {}
    for k in ("upem", "width", "ascender", "descender"):
        m = re.search(rf"^\s*{k}\s*=\s*(\S+)", text, re.M)
        out[k] = core.parse_number(m.group(1), tokens)
    return out


def replay_mergeable_config(inp):
    from nanoemoji import colr_to_svg as C2S
    from harness.C01 import place_spec

    g = lambda n: int(inp[n])
    font = _MetricsFont(g("upem"), g("tasc"), g("tdesc"), g("hasc"), g("hdesc"), g("fs"), g("adv"))
    cfg = _cfg_numbers(_written_config(font))
    region = C2S.glyph_region(font, "g")
    F = cfg["ascender"] - cfg["descender"]
    adv2 = max(cfg["width"], round(F * region.w / region.h))
    there = place_spec(tuple(region), g("tasc"), g("tdesc"), g("adv"), ps.IDENT)  # the picture the intermediate SVG was drawn from
    back = place_spec(tuple(region), cfg["ascender"], cfg["descender"], adv2, ps.IDENT)  # where the table-building run puts it
    if cfg["upem"] != g("upem") or max(abs(float(a) - float(b)) for a, b in zip(there, back)) > 1e-9:
        return {"font": {k: g(k) for k in ("upem", "tasc", "tdesc", "hasc", "hdesc", "fs", "adv")}, "config written": {k: float(v) for k, v in cfg.items()},
                "intermediate viewBox": list(region), "placement of the new table": [float(v) for v in back], "placement of the existing table": [float(v) for v in there]}
    return None


def job_mergeable_config(jc):
    """write_config_for_mergeable.main + colr_to_svg.glyph_region: the intermediate SVGs are drawn in a viewBox
    derived from the font's metrics and the table-building run maps that viewBox back with the metrics in the
    config written here -- the two must describe the same placement, for every font metrics."""
    from nanoemoji import write_config_for_mergeable as WCM
    from nanoemoji import colr_to_svg as C2S
    from harness.C01 import place_spec

    jc.encode(WCM.main, C2S.glyph_region)
    names = ("upem", "tasc", "tdesc", "hasc", "hdesc", "fs", "adv")
    inp = {n: core.SymNum(z3.Int(n)) for n in names}

    def body():
        i = core.integer
        upem, tasc, tdesc, hasc, hdesc = i("upem", 16, 16384), i("tasc", 1, 4000), i("tdesc", -4000, 0), i("hasc", 1, 4000), i("hdesc", -4000, 0)
        fs, adv = i("fs", 0, 1023), i("adv", 1, 4000)
        font = _MetricsFont(upem, tasc, tdesc, hasc, hdesc, fs, adv)
        text = _written_config(font)
        return font, text, C2S.glyph_region(font, "g")

    results = jc.explore(body, max_paths=200)
    for r in results:
        if not jc.no_exception(r, inp, replay_mergeable_config, "C12:mergeable-config:raises"):
            continue
        font, text, region = r.value
        jc.reach(r, "ok")
        with core.post(r):
            cfg = _cfg_numbers(text, r.tokens)
            tasc, tdesc, adv = (core.SymNum(z3.Int(n)) for n in ("tasc", "tdesc", "adv"))
            same_metrics = z3.And(core.as_term(cfg["ascender"]) == core.as_term(tasc), core.as_term(cfg["descender"]) == core.as_term(tdesc))
        # with equal metrics the proportional advance round(F * w / h) is w itself, so both placements coincide;
        # with unequal metrics scale or origin differ (replay shows the two placements)
        prop = z3.And(core.as_term(cfg["upem"]) == z3.Int("upem"), core.as_term(cfg["width"]) == 0, same_metrics,
                      core.as_term(region.h) == core.as_term(tasc) - core.as_term(tdesc), core.as_term(region.y) == -core.as_term(tasc), core.as_term(region.w) == core.as_term(adv), core.as_term(region.x) == 0)
        jc.prove(r, prop, "the config for the table-building run and the intermediate viewBox use the same ascender/descender/upem (same placement of the new table)", inp, replay_mergeable_config, key="C12:mergeable-config:metrics")
    jc.expect_reached("ok")



# ------------------------------------------------------------ maximum_color's build graph: gid-named files keep their numbering


def _mc_graph(table, bitmaps, keep_names, colr_version=1):
    """the real maximum_color._run with a recording ninja writer -> build edges"""
    import os
    import shutil
    import tempfile
    import types
    from pathlib import Path
    from absl import flags
    from harness import C20
    from nanoemoji.config import FontConfig

    C20.ensure_flags()
    d = tempfile.mkdtemp(prefix="c12_")
    saved_flags = (flags.FLAGS.build_dir, flags.FLAGS.bitmaps, flags.FLAGS.colr_version)
    saved = (MC.ttLib, MC.colr_glyphs, MC.svg_glyphs, MC.config, MC.NinjaWriter, MC.maybe_run_ninja, MC._vector_color_table)
    try:
        inp = Path(d) / "In.ttf"
        inp.write_bytes(b"x")
        flags.FLAGS.build_dir, flags.FLAGS.bitmaps, flags.FLAGS.colr_version = os.path.join(d, "build"), bitmaps, colr_version
        MC.ttLib = types.SimpleNamespace(TTFont=lambda *a, **k: {})
        MC.colr_glyphs = lambda f: [2, 3, 5]
        MC.svg_glyphs = lambda f: [(2, None), (3, None), (5, None)]
        MC.config = types.SimpleNamespace(load=lambda *a, **k: FontConfig()._replace(output_file="Out.ttf", keep_glyph_names=keep_names), FontConfig=FontConfig)
        MC.NinjaWriter = C20.RecWriter
        MC.maybe_run_ninja = lambda f: None
        MC._vector_color_table = lambda f: table
        MC._run(["prog", str(inp)])
        return [dict(e) for e in C20.RecWriter.last.edges], str(inp)
    finally:
        (MC.ttLib, MC.colr_glyphs, MC.svg_glyphs, MC.config, MC.NinjaWriter, MC.maybe_run_ninja, MC._vector_color_table) = saved
        flags.FLAGS.build_dir, flags.FLAGS.bitmaps, flags.FLAGS.colr_version = saved_flags
        shutil.rmtree(d, ignore_errors=True)


def _mc_numbering_problems(edges, input_font):
    """Glyph-order classes through the graph: files named by glyph id (…/00002.svg and what is derived from them) carry
    the class of the font they were numbered in; keep/strip/copy and adding COLR/CBDT keep a font's glyph order, adding
    an SVG table may reorder it (glue_together._copy_svg).  write_glyphmap_for_glyph_svgs turns ids back into names: the
    font it is given must be of the class its gid-named inputs were numbered in."""
    cls = {input_font: "input order"}
    problems = []
    for e in edges:
        ins, outs, rule = e["inputs"], e["outputs"], e["rule"]
        known = [cls[i] for i in ins if i in cls]
        if rule in ("keep_glyph_names", "strip_glyph_names", "copy", "generate_svgs_from_colr", "extract_svgs_from_otsvg", "picosvg", "write_bitmap"):
            for o in outs:
                cls[o] = known[0] if known else "?"
        elif rule == "glue_together":
            target = str(e["variables"].get("target_font"))
            tc = cls.get(target, cls.get(next((i for i in e["implicit"] if i.endswith(target)), ""), "?"))
            for o in outs:
                cls[o] = f"reordered by adding SVG to {target}" if e["variables"].get("color_table") == "SVG" else tc
        elif rule == "write_glyphmap_for_glyph_svgs":
            fonts = [i for i in ins if i.endswith(".ttf")]
            files = [i for i in ins if not i.endswith(".ttf")]
            if len(fonts) != 1:
                problems.append({"edge": outs, "fonts": fonts})
                continue
            fc = cls.get(fonts[0], cls.get(next((k for k in cls if k.endswith("/" + fonts[0]) or k == fonts[0]), ""), "?"))
            for f in files:
                if cls.get(f, "?") != fc:
                    problems.append({"glyphmap": outs, "gid-named file": f, "numbered in": cls.get(f, "?"), "names looked up in": fonts[0], "whose glyph order is": fc})
                    break
    return problems


def replay_mc_graph(inp):
    edges, font = _mc_graph(inp["table"], bool(inp["bitmaps"]), bool(inp["keep"]), int(inp.get("colr_version", 1)))
    bad = _mc_numbering_problems(edges, font)
    return {"problems": bad[:3]} if bad else None


def job_mc_graph(jc):
    jc.encode(MC._run, MC._generate_cbdt, MC._generate_additional_color_table, MC._generate_svg_from_colr, MC._generate_colr_from_svg)
    table = jc.params["table"]
    inp = {"table": table, "bitmaps": core.SymNum(z3.Int("bitmaps")), "keep": core.SymNum(z3.Int("keep")), "colr_version": core.SymNum(z3.Int("colr_version"))}

    def body():
        b, k, v = core.integer("bitmaps", 0, 1).concretize(), core.integer("keep", 0, 1).concretize(), core.integer("colr_version", 0, 1).concretize()
        edges, font = _mc_graph(table, bool(b), bool(k), v)
        return edges, font

    results = jc.explore(body, max_paths=50)
    for r in results:
        if not jc.no_exception(r, inp, replay_mc_graph, "C12:graph:raises"):
            continue
        edges, font = r.value
        jc.reach(r, "ok")
        bad = _mc_numbering_problems(edges, font)
        n_glyphmaps = sum(1 for e in edges if e["rule"] == "write_glyphmap_for_glyph_svgs")
        jc.prove(r, z3.BoolVal(not bad and n_glyphmaps >= 1), "files named by glyph id are turned back into glyph names with the font they were numbered in (every glyphmap edge of the build graph)", inp, replay_mc_graph, key="C12:graph:numbering")
    jc.expect_reached("ok")



# ------------------------------------------------------------ generate_svgs_from_colr: each glyph drawn in its own region


def _view_boxes(widths):
    import importlib
    import sys
    from absl import flags

    name = "nanoemoji.generate_svgs_from_colr"
    if name not in sys.modules:
        try:
            importlib.import_module(name)
        except flags.DuplicateFlagError:
            spec = importlib.util.find_spec(name)
            src = open(spec.origin).read().replace("flags.DEFINE_string(", "(lambda *a, **k: None)(")
            mod = importlib.util.module_from_spec(spec)
            sys.modules[name] = mod
            exec(compile(src, spec.origin, "exec"), mod.__dict__)
    G = sys.modules[name]
    font = _MetricsFont(1000, 950, -250, 950, -250, 128, 0)
    font["hmtx"] = {f"g{i}": (w, 0) for i, w in enumerate(widths)}
    return [tuple(G._view_box(font, f"g{i}")) for i in range(len(widths))], G


def replay_view_boxes(inp):
    ws = [int(inp["w0"]), int(inp["w1"])]
    got, _ = _view_boxes(ws)
    want = [(0, -950, w, 1200) for w in ws]
    if [tuple(float(v) for v in g) for g in got] != [tuple(float(v) for v in w) for w in want]:
        return {"advances": ws, "view boxes": got, "expected (0, -ascender, advance, em height) per glyph": want}
    return None


def job_view_boxes(jc):
    """generate_svgs_from_colr._view_box for two glyphs of one font with symbolic advances: each gets the region of its own advance"""
    _, G = _view_boxes([500, 600])
    jc.encode(G._view_box)
    inp = {"w0": core.SymNum(z3.Int("w0")), "w1": core.SymNum(z3.Int("w1"))}

    def body():
        return _view_boxes([core.integer("w0", 1, 4000), core.integer("w1", 1, 4000)])[0]

    for r in jc.explore(body):
        if not jc.no_exception(r, inp, replay_view_boxes, "C12:view-box:raises"):
            continue
        jc.reach(r, "ok")
        b0, b1 = r.value
        eq = lambda b, w: z3.And(core.as_term(b[0]) == 0, core.as_term(b[1]) == -950, core.as_term(b[2]) == z3.Int(w), core.as_term(b[3]) == 1200)
        jc.prove(r, z3.And(eq(b0, "w0"), eq(b1, "w1")), "each colour glyph is drawn in the region of its own advance (0, -ascender, advance, em height)", inp, replay_view_boxes, key="C12:view-box")
    jc.expect_reached("ok")



# ------------------------------------------------------------ _copy_svg on a real font that has GDEF but no GSUB/GPOS


def _copy_svg_gdef(lo, hi, keep):
    """target = the lookup zoo without the tables named in `drop`; donor = same glyphs in reversed order with one SVG
    document for donor gids lo..hi.  -> (new order, coverages of the target not sorted by the new glyph ids)"""
    from harness import C11, C11_zoo

    target = C11_zoo.build_zoo()
    for tag in ("GSUB", "GPOS", "GDEF"):
        if tag not in keep and tag in target:
            del target[tag]
    names = list(C11_zoo.NAMES)
    donor = StubFont([names[0]] + names[:0:-1])
    donor["SVG "] = Tbl(docList=[("<svg/>", lo, hi)])
    GT._copy_svg(target, donor)
    order = target.getGlyphOrder()
    pos = {n: i for i, n in enumerate(order)}
    bad = []
    for tag in keep:
        if tag not in target:
            continue
        for node in C11.all_nodes(target[tag].table):
            for a, c in C11.coverages_of(node):
                if [pos[g] for g in c.glyphs] != sorted(pos[g] for g in c.glyphs):
                    bad.append({"table": f"{tag}:{type(node).__name__}", "coverage": a, "glyphs": list(c.glyphs), "new glyph ids": [pos[g] for g in c.glyphs]})
    return order, bad


def replay_copy_svg_gdef(inp):
    try:
        order, bad = _copy_svg_gdef(int(inp["lo"]), int(inp["hi"]), tuple(inp["keep"]))
    except Exception as e:
        return {"raised": repr(e)}
    return {"tables kept": inp["keep"], "new glyph order": order, "coverage tables not in glyph id order": bad[:3]} if bad else None


def job_copy_svg_gdef(jc):
    jc.encode(GT._copy_svg)
    keep = jc.params["keep"]
    inp = {"keep": list(keep), "lo": core.SymNum(z3.Int("lo")), "hi": core.SymNum(z3.Int("hi"))}

    def body():
        lo = core.integer("lo", 1, 5).concretize()
        hi = core.integer("hi", 1, 8).concretize()
        if hi < lo:
            return None
        return _copy_svg_gdef(lo, hi, keep)

    for r in jc.explore(body, max_paths=100, catch=(AssertionError, ValueError, IndexError)):
        if not jc.no_exception(r, inp, replay_copy_svg_gdef, "C12:copy_svg:tables:raises"):
            continue
        if r.value is None:
            continue
        jc.reach(r, "ok")
        jc.prove(r, z3.BoolVal(not r.value[1]), "after _copy_svg every coverage table of the font (GDEF included, with or without GSUB/GPOS) lists glyphs in the new glyph id order", inp, replay_copy_svg_gdef, key="C12:copy_svg:tables")
    jc.expect_reached("ok")



def copy_svg_jobs(tier):
    perms = [tuple(range(len(NAMES))), (0, 6, 5, 4, 3, 2, 1), (0, 3, 1, 5, 2, 6, 4)]
    if tier != "quick":
        perms += [(0, 2, 1, 4, 3, 6, 5), (0, 4, 5, 6, 1, 2, 3)]
    js = [Job(f"copy_svg[target order {p}]", job_copy_svg, target_perm=p) for p in perms]
    for keep in (("GDEF",), ("GDEF", "GPOS"), ("GSUB", "GPOS", "GDEF")):
        js.append(Job(f"copy_svg[real font, tables {'+'.join(keep)}]", job_copy_svg_gdef, keep=keep))
    return js


def jobs(tier):
    import itertools
    from harness import C07_cbdt, C13, C11

    js = copy_svg_jobs(tier)
    js += C07_cbdt.copy_jobs(tier)
    js += [Job("copy_colr[v1]", job_copy_colr, version=1), Job("copy_colr[v0]", job_copy_colr, version=0)]
    js.append(Job("extract svg_glyphs", job_svg_glyphs))
    js.append(Job("WriteFontInputs mapping", job_inputs_mapping))
    js.append(Job("mergeable config metrics", job_mergeable_config))
    js.append(Job("generate_svgs view boxes", job_view_boxes))
    for table in ("COLR", "SVG "):
        js.append(Job(f"maximum_color graph[{table.strip()} input]", job_mc_graph, table=table))
    for t in ("Transform>glyph>solid", "Translate>Scale>glyph", "glyph>linear", "glyph>radial", "layers(+nested,currentColor,composite glyph)", "group-opacity composite", "group-opacity composite (translucent black palette entry)", "PaintColrGlyph", "three glyphs sharing a gradient"):
        js.append(Job(f"colr->svg[{t}]", C13.job_c13, template=t, viewbox="150off", npal=1))
    js.append(Job("colr0->svg", C13.job_colr0, viewbox="150off", npal=1))
    js.append(Job("reorder whole_font (layout meaning)", C11.job_whole_font))
    font = C11.ZOO.build_zoo()
    for i, (tag, name, st) in enumerate(C11.focuses(font)):
        if any(k in name for k in ("SinglePos2", "PairPos1", "MarkBasePos", "ChainContextSubst3")):
            js.append(Job(f"reorder focus[{name}]", C11.job_focus, index=i))
    return js


def main(tier):
    return run_property(
        "C12",
        jobs(tier),
        tier=tier,
        explanation="Bounded symbolic execution of the steps maximum_color composes: glue_together copy functions (glyph-order construction, CBDT resharding with symbolic gids, COLR bookkeeping with symbolic advances), SVG document splitting, the table/format mapping, COLR->SVG picture equality (C13 kernel) and layout-table meaning after the glyph reorder (C11 kernel).",
        bounds={"copy_svg": "7 glyph names, 1-2 donor documents with ranges in 1..6 (concretised by forking), 3 target orders", "copy_cbdt": "<= 3 glyphs, symbolic distinct target gids", "colr->svg": "8 templates"},
        outside=["the ninja-driven pipeline and its subprocesses", "extract_svgs_from_otsvg XML surgery", "bitmap rendering", "binary save/load by fontTools"],
        assumptions=["fonts are name/gid stubs with attribute-bag tables"],
        shims=["glue_together.paints_of_type -> fixed list (copy_colr job)"],
        stubs=["TTFont -> StubFont"],
        budget_s=900 if tier == "quick" else 3000,
    )
