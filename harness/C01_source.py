"""C01 end to end from a real picosvg-normal source: ColorGlyph.create -> _painted_layers -> _paint_glyph ->
gradient parsing, with symbolic font metrics / advance / user transform. The source document is read
independently by the SVG-semantics oracle; the resulting paint tree must denote the same leaves
(count, z-order, group opacity nesting, outlines, colours, gradient colour fields) placed by the
placement spec.
"""
from __future__ import annotations

from fractions import Fraction

import ufoLib2
import z3
from lxml import etree

from symx import core, shims
from symx.runner import Job
from oracle import paint_semantics as ps
from oracle import svg_semantics as svs
from oracle import css_color
from harness import reuse_common as RC
from harness import C16_radial as RS

from nanoemoji import color_glyph as CG
from nanoemoji import paint as P
from nanoemoji.colors import Color
from nanoemoji.config import FontConfig
from picosvg.svg import SVG
from picosvg.svg_transform import Affine2D

NS = 'xmlns="http://www.w3.org/2000/svg"'
SOURCES = {
    "solids+opacity": f'<svg {NS} viewBox="0 0 128 128"><defs/><path d="M10,10 L100,10 L100,60 L10,60 Z" fill="#FF0000"/><path d="M20,20 L60,20 L40,90 Z" fill="blue" opacity="0.5"/></svg>',
    "userspace gradients, non-square viewBox": f'<svg {NS} viewBox="10 20 200 100"><defs>'
    '<linearGradient id="a" gradientUnits="userSpaceOnUse" x1="20" y1="30" x2="150" y2="90" spreadMethod="reflect"><stop offset="0.125" stop-color="#00FF00"/><stop offset="0.875" stop-color="#0000FF" stop-opacity="0.25"/></linearGradient>'
    '<radialGradient id="b" gradientUnits="userSpaceOnUse" cx="100" cy="70" r="40" fx="90" fy="65" fr="4" gradientTransform="matrix(1 0 0 0.5 0 35)"><stop offset="0" stop-color="#FFFFFF"/><stop offset="1" stop-color="#000000"/></radialGradient>'
    '</defs><path d="M20,30 L150,30 L150,90 L20,90 Z" fill="url(#a)"/><path d="M60,40 L140,40 L140,100 L60,100 Z" fill="url(#b)" opacity="0.75"/></svg>',
    "bbox gradients": f'<svg {NS} viewBox="0 0 100 100"><defs>'
    '<linearGradient id="a" x1="0" y1="0" x2="1" y2="0.5"><stop offset="0" stop-color="#FF0000"/><stop offset="1" stop-color="#0000FF"/></linearGradient>'
    '<radialGradient id="b" cx="0.5" cy="0.5" r="0.5" fx="0.25" fy="0.25" gradientTransform="matrix(0.5 0 0 1 0.25 0)" spreadMethod="repeat"><stop offset="0" stop-color="#FF0000" stop-opacity="0.5"/><stop offset="1" stop-color="#0000FF"/></radialGradient>'
    '</defs><path d="M10,10 L90,10 L90,50 L10,50 Z" fill="url(#a)"/><path d="M20,40 L80,40 L80,90 L20,90 Z" fill="url(#b)"/></svg>',
    "group opacity between layers": f'<svg {NS} viewBox="0 0 64 64"><defs/><path d="M1,1 L30,1 L30,30 Z" fill="#010203"/>'
    '<g opacity="0.5"><path d="M5,5 L40,5 L40,40 Z" fill="#FF0000"/><path d="M10,10 L50,10 L50,50 Z" fill="#00FF00" opacity="0.25"/></g>'
    '<path d="M2,2 L60,2 L60,60 Z" fill="#0000FF"/></svg>',
    "fill with its own alpha channel + shape opacity": f'<svg {NS} viewBox="0 0 32 32"><defs/><path d="M1,1 L30,1 L30,30 Z" fill="#FF000080" opacity="0.5"/><path d="M2,2 L20,2 L20,20 Z" fill="#0F08"/></svg>',
    "palette variable whose default has an alpha channel + shape opacity": f'<svg {NS} viewBox="0 0 32 32"><defs/><path d="M1,1 L30,1 L30,30 Z" fill="var(--color1, #FF000080)" opacity="0.5"/><path d="M2,2 L20,2 L20,20 Z" fill="var(--color0, #0F08)"/><path d="M3,3 L9,3 L9,9 Z" fill="var(--color3, blue)" opacity="0.25"/></svg>',
    "gradient stops with palette variables": f'<svg {NS} viewBox="0 0 64 64"><defs>'
    '<linearGradient id="a" gradientUnits="userSpaceOnUse" x1="4" y1="4" x2="60" y2="4"><stop offset="0" stop-color="var(--color1, #00FF00)"/><stop offset="0.5" stop-color="var(--color3, #0000FF80)" stop-opacity="0.5"/><stop offset="1" stop-color="#FF0000"/></linearGradient>'
    '</defs><path d="M4,4 L60,4 L60,40 L4,40 Z" fill="url(#a)" opacity="0.5"/><path d="M2,2 L20,2 L20,20 Z" fill="var(--color1, #00FF00)"/></svg>',
    "currentColor and palette variables": f'<svg {NS} viewBox="0 0 32 32"><defs/><path d="M1,1 L30,1 L30,30 Z" fill="currentColor" opacity="0.5"/><path d="M2,2 L20,2 L20,20 Z" fill="var(--color2, #ABCDEF)"/></svg>',
}


def source_leaves(svg_text):
    """Independent reading of the source: leaves in viewBox space (objectBoundingBox resolved from
    the path's own points -- sources use polygons, so the control box is the bounding box)."""
    root = etree.fromstring(svg_text)
    vb = [float(v) for v in root.attrib["viewBox"].split()]
    ids = {el.attrib["id"]: el for el in root.iter() if isinstance(el.tag, str) and "id" in el.attrib}
    leaves = []

    def walk(el, groups):
        tag = etree.QName(el).localname
        if tag == "defs":
            return
        if tag == "g":
            g2 = groups + ((float(el.attrib["opacity"]),) if "opacity" in el.attrib else ())
            for ch in el:
                walk(ch, g2)
            return
        if tag == "path":
            segs = svs.parse_path(el.attrib["d"], {})
            pts = [p for _, pp in segs for p in pp]
            fill = el.attrib.get("fill", "black")
            op = float(el.attrib.get("opacity", "1"))
            if fill.startswith("url("):
                g = ids[fill[5:-1]]
                xs, ys = [p[0] for p in pts], [p[1] for p in pts]
                bbox = (min(xs), min(ys), max(xs) - min(xs), max(ys) - min(ys))
                from harness.C01 import svg_gradient_spec

                spec, stops, spread = svg_gradient_spec(g, bbox, ps.IDENT)
                leaves.append({"segs": segs, "fill": spec, "stops": stops, "spread": spread, "opacity": op, "groups": groups})
            else:
                leaves.append({"segs": segs, "fill": ("solid", fill), "opacity": op, "groups": groups})

    for ch in root:
        walk(ch, ())
    return vb, leaves


def solid_alpha(fill: str, opacity: float) -> float:
    """alpha of a solid fill = the colour's own alpha channel (#RRGGBBAA / #RGBA, also inside var()) x shape opacity."""
    return float(css_color.parse(fill).alpha) * opacity


def same_solid(color, fill: str) -> bool:
    """rgb / palette index / currentColor of a nanoemoji Color against the oracle's reading of the source string."""
    c = css_color.parse(fill)
    if c.current:
        return color.is_current_color() and color.palette_index is None
    return tuple(color[:3]) == c.rgb and color.palette_index == c.palette_index


def paint_leaves(layers):
    """Leaves of nanoemoji's paint tree with group alphas (no transforms above PaintGlyph yet)."""
    out = []

    def walk(p, groups):
        k = type(p).__name__
        if k == "PaintGlyph":
            out.append((p, groups))
        elif k == "PaintColrLayers":
            for c in p.layers:
                walk(c, groups)
        elif k == "PaintComposite":
            assert p.mode.name == "SRC_IN" and type(p.backdrop).__name__ == "PaintSolid" and tuple(p.backdrop.color[:3]) == (0, 0, 0)
            walk(p.source, groups + (p.backdrop.color.alpha,))
        else:
            raise core.HarnessError(f"unexpected node {k}")

    for layer in layers:
        walk(layer, ())
    return out


def replay_source(inp):
    name = inp["source"]
    text = SOURCES[name]
    g = lambda n, d: float(inp.get(n, d))
    U = Affine2D(*[g(f"u{i}", (1, 0, 0, 1, 0, 0)[i]) for i in range(6)])
    cfg = FontConfig()._replace(ascender=int(g("asc", 950)), descender=int(g("desc", -250)), width=int(g("width", 1275)), transform=U)
    ufo = ufoLib2.Font()
    try:
        cg = CG.ColorGlyph.create(cfg, ufo, "f.svg", 2, "g", (0x41,), SVG.fromstring(text))
    except OverflowError:
        return None
    except Exception as e:
        return {"raised": repr(e)}
    vb, want = source_leaves(text)
    got = paint_leaves(cg.painted_layers)
    if len(got) != len(want):
        return {"leaves": [len(got), len(want)]}
    from harness.C01 import place_spec

    place = place_spec(tuple(vb), cfg.ascender, cfg.descender, ufo["g"].width, tuple(U))
    for (pg, groups), w in zip(got, want):
        if [p for _, pp in svs.parse_path(pg.glyph, {}) for p in pp] != [p for _, pp in w["segs"] for p in pp]:
            return {"outline/z-order": [pg.glyph, w["segs"]]}
        if tuple(groups) != tuple(w["groups"]):
            return {"groups": [groups, w["groups"]]}
        f = ps._fill(pg.paint, ps.IDENT, None)
        if f[0] != w["fill"][0]:
            return {"fill kind": [f[0], w["fill"][0]]}
        if f[0] == "solid":
            if not same_solid(f[1], w["fill"][1]) or abs(f[1].alpha - solid_alpha(w["fill"][1], w["opacity"])) > 1e-12:
                return {"solid": [repr(f[1]), w["fill"][1], "shape opacity", w["opacity"], "expected alpha", solid_alpha(w["fill"][1], w["opacity"])]}
            continue
        for st, (off, col, sop) in zip(f[-2], w["stops"]):
            if abs(st.stopOffset - off) > 1e-9 or abs(st.color.alpha - float(css_color.parse(col).alpha) * sop * w["opacity"]) > 1e-9 or not same_solid(st.color, col):
                return {"stop": [repr(st), off, col, sop]}
        if f[-1].name != w["spread"]:
            return {"extend": [f[-1].name, w["spread"]]}
        if f[0] == "linear":
            wpts = tuple(ps.apply(place, q) for q in w["fill"][1:4])
            for q in ((0.0, 0.0), (500.0, 0.0), (0.0, 500.0)):
                n1, d1 = ps.linear_t(*wpts, q)
                n2, d2 = ps.linear_t(*f[1:4], q)
                if abs(d1) > 1e-9 and abs(d2) > 1e-9 and abs(n1 / d1 - n2 / d2) > 1e-6:
                    return {"linear": [n1 / d1, n2 / d2], "paint": repr(pg.paint)[:300]}
        else:
            import math

            c0, r0, c1, r1, N = w["fill"][1:6]
            M2 = ps.mul(place, N)
            d0, s0, d1, s1, M1 = f[1:6]
            M1 = tuple(float(x) for x in M1)
            if abs(M1[0] * M1[3] - M1[1] * M1[2]) > 1e-12:
                NN = ps.mul(tuple(Affine2D(*M1).inverse()), tuple(float(x) for x in M2))
                k = math.hypot(NN[0], NN[1])
                errs = [abs(math.hypot(NN[2], NN[3]) - k), abs(NN[0] * NN[2] + NN[1] * NN[3]), abs(ps.apply(NN, c0)[0] - d0[0]), abs(ps.apply(NN, c0)[1] - d0[1]),
                        abs(ps.apply(NN, c1)[0] - d1[0]), abs(ps.apply(NN, c1)[1] - d1[1]), abs(s0 - k * r0), abs(s1 - k * r1)]
                if max(errs) > 1e-5 * max(1.0, k, abs(d1[0]), abs(d1[1]), s1):
                    return {"radial": errs, "paint": repr(pg.paint)[:400]}
    return None


def job_source(jc):
    jc.encode(CG.ColorGlyph.create, CG._painted_layers, CG._paint_glyph, CG._parse_linear_gradient, CG._parse_radial_gradient, CG._get_gradient_transform,
              CG._color_stop, CG._common_gradient_parts, CG._advance_width, CG.map_viewbox_to_font_space)
    name, user = jc.params["source"], jc.params["user"]
    text = SOURCES[name]
    vb, want = source_leaves(text)
    rec = RS.Recorder(RS.stub_decompose_uniform)
    inp = {"source": name, "asc": core.SymNum(z3.Int("asc")), "desc": core.SymNum(z3.Int("desc")), "width": core.SymNum(z3.Int("width"))}
    for i in range(6):
        inp[f"u{i}"] = core.SymNum(z3.Real(f"u{i}"))

    def body():
        r = core.real
        asc, desc, width = core.integer("asc", 256, 1280), core.integer("desc", -512, 0), core.integer("width", 0, 2048)
        core.assume(asc - desc >= 128)
        if user == "identity":
            U = Affine2D.identity()
            for i, v in enumerate(U):
                core.assume(r(f"u{i}") == v)
        elif user == "translate":
            U = Affine2D(1, 0, 0, 1, r("u4", -500, 500), r("u5", -500, 500))
            for i in range(4):
                core.assume(r(f"u{i}") == U[i])
        elif user == "mirror":  # orientation-reversing user transforms are as legitimate as any other
            U = Affine2D(-1, 0, 0, 1, r("u4", -500, 1500), r("u5", -500, 500))
            for i in range(4):
                core.assume(r(f"u{i}") == U[i])
        else:
            U = Affine2D(r("u0", Fraction(1, 4), 2), 0, 0, r("u3", Fraction(1, 4), 2), r("u4", -500, 500), r("u5", -500, 500))
            core.assume(r("u1") == 0)
            core.assume(r("u2") == 0)
        cfg = FontConfig()._replace(ascender=asc, descender=desc, width=width, transform=U)
        ufo = ufoLib2.Font()
        rec.calls.clear()
        cg = CG.ColorGlyph.create(cfg, ufo, "f.svg", 2, "g", (0x41,), SVG.fromstring(text))
        from harness.C01 import place_spec

        adv = ufo["g"].width
        return asc, desc, width, U, cg, adv, place_spec(tuple(vb), asc, desc, adv, tuple(U)), [tuple(c[2][0]) for c in rec.calls]

    sl = shims.std_shims() + shims.numeric_shims("nanoemoji.color_glyph", "nanoemoji.paint") + [
        shims.Shim("nanoemoji.paint", "transformed", RS.stub_transformed, "compositional: contract proved in C16"),
        shims.Shim("nanoemoji.paint", "_decompose_uniform_transform", rec, "compositional: contract proved in C16; recorded uniform part = witness"),
    ]
    saved = Affine2D.inverse
    try:
        with shims.installed(sl):
            Affine2D.inverse = RS.stub_inverse
            results = jc.explore(body, round_mode="identity", feas_timeout_ms=1000, catch=(OverflowError, ValueError, AssertionError, ZeroDivisionError), max_paths=3000)
    finally:
        Affine2D.inverse = saved
    for r in results:
        if isinstance(r.exc, OverflowError):
            jc.reach(r, "OverflowError")
            continue
        if not jc.no_exception(r, inp, replay_source, f"C01:source:{name}:raises"):
            continue
        asc, desc, width, U, cg, adv, place, uniforms = r.value
        jc.reach(r, "ok")
        key = f"C01:source:{name}"
        got = paint_leaves(cg.painted_layers)
        structural = len(got) == len(want)
        conj_scal, conj_grad = [], []
        if structural:
            for (pg, groups), w in zip(got, want):
                same_outline = [p for _, pp in svs.parse_path(pg.glyph, {}) for p in pp] == [p for _, pp in w["segs"] for p in pp]
                structural = structural and same_outline and len(groups) == len(w["groups"])
                for a, b in zip(groups, w["groups"]):
                    conj_scal.append(core.as_term(a) == core.as_term(b))
                f = ps._fill(pg.paint, ps.IDENT, None)
                if f[0] != w["fill"][0]:
                    structural = False
                    continue
                if f[0] == "solid":
                    structural = structural and same_solid(f[1], w["fill"][1]) and abs(f[1].alpha - solid_alpha(w["fill"][1], w["opacity"])) < 1e-12
                    continue
                structural = structural and len(f[-2]) == len(w["stops"]) and f[-1].name == w["spread"]
                for st, (off, col, sop) in zip(f[-2], w["stops"]):
                    c = css_color.parse(col)
                    structural = structural and same_solid(st.color, col)
                    conj_scal.append(core.as_term(st.stopOffset) == core.as_term(off))
                    conj_scal.append(core.as_term(st.color.alpha) == z3.RealVal(Fraction(c.alpha * sop * w["opacity"])))
                if f[0] == "linear":
                    with core.post(r):
                        wpts = tuple(ps.apply(place, q) for q in w["fill"][1:4])
                    conj_grad.append(ps.linear_same(wpts, f[1:4]))
                else:
                    c0, r0, c1, r1, N = w["fill"][1:6]
                    with core.post(r):
                        M2 = ps.mul(place, N)
                    conj_grad.append(RC.radial_same_witness(f[1:6], (c0, r0, c1, r1, M2), [ps.IDENT] + uniforms))
        jc.prove(r, z3.BoolVal(structural), "one leaf per source shape in source z-order, same outline, same opacity-group nesting, same fill kind/colours/extend", inp, replay_source, key=key)
        if conj_scal:
            jc.prove(r, z3.And(*conj_scal), "group alphas, stop offsets and stop alphas (= colour x stop-opacity x shape opacity)", inp, replay_source, key=key)
        if conj_grad:
            jc.prove(r, z3.And(*conj_grad), "gradient colour field == the source gradient placed by the placement spec", inp, replay_source, key=key + ":gradient", timeout_ms=60000)
        # advance rule
        F = core.as_term(asc) - core.as_term(desc)
        prop_w = F * z3.RealVal(Fraction(vb[2]) / Fraction(vb[3]))
        A, W = core.as_term(adv), core.as_term(width)
        half = z3.RealVal(Fraction(1, 2))
        jc.prove(r, z3.Or(z3.And(A == W, prop_w - W <= half), z3.And(A >= W, A - prop_w <= half, prop_w - A <= half)), "advance = max(width, round(em height x viewBox w/h))", inp, replay_source, key=key + ":advance")
    jc.expect_reached("ok")


def jobs(tier):
    js = []
    for name in SOURCES:
        for user in (("identity", "translate") if tier == "quick" else ("identity", "translate", "scale")):
            js.append(Job(f"source[{name}|user {user}]", job_source, source=name, user=user))
    js.append(Job("source[solids+opacity|user mirror]", job_source, source="solids+opacity", user="mirror"))
    js.append(Job("source[userspace gradients, non-square viewBox|user mirror]", job_source, source="userspace gradients, non-square viewBox", user="mirror"))
    return js
