"""C19: congruent copies of a shape are stored once (the reuse *wiring*, given picosvg's contract).

Kernel: GlyphReuseCache.try_reuse/add_glyph/is_known_glyph, write_font._migrate_paths_to_ufo_glyphs,
_colr0_layers/_create_transformed_glyph, the component loop of _glyf_ufo, svg._glyph_groups and
ReuseCache.add_glyph -- with picosvg's normalize/affine_between as contract stubs: shapes in one
congruence class, placing affine symbolic.
"""
from __future__ import annotations

from fractions import Fraction

import z3

from symx import core, shims
from symx.runner import Job, run_property
from oracle import paint_semantics as ps
from harness import reuse_common as RC
from harness import C06

from nanoemoji import write_font as WF
from nanoemoji import glyph_reuse as GR
from nanoemoji import svg as SVGMOD
from nanoemoji import paint as P
from nanoemoji.colors import Color
from picosvg.svg_transform import Affine2D

# OpenType Fixed 16.16, written from the spec (not read from nanoemoji.fixed)
FIXED_MIN = Fraction(-32768)
FIXED_MAX = Fraction((1 << 31) - 1, 1 << 16)

COPY2 = "M800,100 L1000,100 L1000,300 L800,300 Z"
# shape families of the quantifier: (donor, copy1, copy2) as picosvg writes them.  Triangles close with Z after two
# explicit segments, the lens is two curves: whether a shape is reusable must not depend on how many commands spell it.
SHAPES = {
    "square": (RC.DONOR, RC.TARGET, COPY2),
    "triangle": ("M100,100 L300,100 L200,300 Z", "M500,500 L700,500 L600,700 Z", "M800,100 L1000,100 L900,300 Z"),
    "lens": ("M100,100 C150,50 250,50 300,100 C250,150 150,150 100,100 Z", "M500,500 C550,450 650,450 700,500 C650,550 550,550 500,500 Z", "M800,100 C850,50 950,50 1000,100 C950,150 850,150 800,100 Z"),
}


def in_fixed(A):
    return z3.And(*[z3.And(core.as_term(v) >= FIXED_MIN, core.as_term(v) <= FIXED_MAX) for v in A])


def _pairs(A, B, C, shape="square"):
    d, t, c2 = (RC.font_space(x) for x in SHAPES[shape])
    return {(d, t): A, (d, c2): B, (t, c2): C}, {d: "donor", t: "copy1", c2: "copy2"}


def replay_wiring(inp):
    g = lambda p: Affine2D(*[float(inp.get(f"{p}{i}", (1, 0, 0, 1, 0, 0)[i])) for i in range(6)])
    A, B, C = g("A"), g("B"), g("C")
    if any(abs(T.determinant()) < 1e-2 for T in (A, B, C)):
        return None
    tol = float(inp.get("tol", 0.1))
    shape = inp.get("shape", "square")
    pairs, _ = _pairs(A, B, C, shape)
    stubs = RC.ReuseStubs(lambda d: "shape", lambda a, b: pairs.get((a, b)))
    layers = [P.PaintGlyph(glyph=g, paint=RC.paint_solid()) for g in SHAPES[shape]]
    try:
        with RC.reuse_shims(stubs, stub_transformed=False, stub_algebra=False):
            ufo, out = C06.migrate(layers, tol, stubs)
    except Exception as e:
        return {"raised": repr(e)}
    leaves = [lf for layer in out.painted_layers for lf in ps.denote(layer)]
    fx = lambda T: all(float(FIXED_MIN) <= v <= float(FIXED_MAX) for v in T)
    bad = {}
    on = tol != -1
    r1 = on and fx(A)
    # copy2's donor is the most recently stored shape of the class
    r2 = on and (fx(B) if r1 else fx(C))
    got1 = leaves[1].glyph == leaves[0].glyph
    got2 = leaves[2].glyph in (leaves[0].glyph, leaves[1].glyph)
    if got1 != r1:
        bad["copy1"] = {"reused": got1, "expected": r1, "affine": list(A)}
    if got2 != r2:
        bad["copy2"] = {"reused": got2, "expected": r2, "affine": list(B if r1 else C), "drawn from": leaves[2].glyph}
    n_outline_glyphs = len([g for g in ufo.keys() if g.startswith("base.")])
    want_n = 1 + (0 if r1 else 1) + (0 if r2 else 1)
    if n_outline_glyphs != want_n:
        bad["outline glyphs"] = [n_outline_glyphs, want_n]
    if on and not (all(abs(x - tol / 10) < 1e-12 for x in stubs.normalize_calls) and all(abs(x - tol) < 1e-12 for x in stubs.affine_calls)):
        bad["tolerances handed to picosvg"] = {"normalize": sorted(set(stubs.normalize_calls)), "affine_between": sorted(set(stubs.affine_calls)), "reuse_tolerance": tol,
                                               "problem": "shapes are stored and looked up under different normalisation tolerances (or the affine tolerance is not the configured one)"}
    return bad or None


def job_wiring(jc):
    jc.encode(GR.GlyphReuseCache.try_reuse, GR.GlyphReuseCache.add_glyph, GR.GlyphReuseCache.is_known_glyph, WF._migrate_paths_to_ufo_glyphs)
    tol = jc.params["tol"]
    shape = jc.params.get("shape", "square")
    stubs0 = RC.ReuseStubs(lambda d: "shape", lambda a, b: None)
    inp = {"tol": tol, "shape": shape}
    for p in "ABC":
        for i in range(6):
            inp[f"{p}{i}"] = core.SymNum(z3.Real(f"{p}{i}"))
    W = 70000

    def body():
        A = RC.sym_affine("A", lin=W, tr=W)
        B = RC.sym_affine("B", lin=W, tr=W)
        C = RC.sym_affine("C", lin=W, tr=W)
        pairs, _ = _pairs(A, B, C, shape)
        used = []

        def aff(a, b):
            used.append((a, b))
            return pairs.get((a, b))

        stubs0.affine_for = aff
        stubs0.normalize_calls.clear()
        stubs0.affine_calls.clear()
        layers = [P.PaintGlyph(glyph=g, paint=RC.paint_solid()) for g in SHAPES[shape]]
        ufo, out = C06.migrate(layers, tol, stubs0)
        return pairs, used, ufo, out, (list(stubs0.normalize_calls), list(stubs0.affine_calls))

    with RC.reuse_shims(stubs0):
        results = jc.explore(body, max_paths=6000, catch=(AssertionError, ValueError))
    d, t, c2 = (RC.font_space(x) for x in SHAPES[shape])
    for r in results:
        if not jc.no_exception(r, inp, replay_wiring, "C19:wiring:raises"):
            continue
        pairs, used, ufo, out, calls = r.value
        with core.post(r):
            leaves = [lf for layer in out.painted_layers for lf in ps.denote(layer)]
        n_outlines = len([g for g in ufo.keys() if g.startswith("base.")])
        stored_names = [leaves[0].glyph]
        path_of = {leaves[0].glyph: d}
        stored = 1
        for name, lf, own in (("copy1", leaves[1], t), ("copy2", leaves[2], c2)):
            reused = lf.glyph in stored_names
            jc.reach(r, f"{name} {'reused' if reused else 'stored separately'}")
            # the affine picosvg was asked for on behalf of this copy (None if it was never asked)
            asked = [pairs.get(k) for k in used if k[1] == own]
            if tol == -1:
                jc.prove(r, z3.BoolVal(not reused and not asked), "reuse disabled (-1) stores every shape separately and never asks picosvg", inp, replay_wiring, key="C19:wiring:disabled")
                if not reused:
                    stored += 1
                    stored_names.append(lf.glyph)
                    path_of[lf.glyph] = own
            elif reused:
                T = pairs[(path_of[lf.glyph], own)]
                jc.prove(r, z3.And(in_fixed(T), ps.aff_eq(lf.M, tuple(T), Fraction(1, 1 << 14))), "a reused copy is drawn from an already stored outline through its placing affine, which fits Fixed 16.16",
                         inp, replay_wiring, key="C19:wiring:reused")
            else:
                # the cache offers the most recently stored shape of the class; storing the copy separately is
                # acceptable only if the affine placing it from that shape does not fit Fixed 16.16
                T = pairs[(path_of[stored_names[-1]], own)]
                jc.prove(r, z3.Not(in_fixed(T)), "a congruent copy is stored separately only if its placing affine does not fit Fixed 16.16", inp, replay_wiring, key="C19:wiring:not-reused")
                stored += 1
                stored_names.append(lf.glyph)
                path_of[lf.glyph] = own
        jc.prove(r, z3.BoolVal(n_outlines == stored), "exactly one outline glyph per stored shape", inp, replay_wiring, key="C19:wiring:count")
        if tol != -1:
            ok = all(abs(x - tol / 10) < 1e-12 for x in calls[0]) and all(abs(x - tol) < 1e-12 for x in calls[1])
            jc.prove(r, z3.BoolVal(ok), "normalisation tolerance = tolerance/10, affine tolerance = tolerance", inp, replay_wiring, key="C19:wiring:tolerances")
    if tol == -1:
        jc.expect_reached("copy1 stored separately")
    else:
        jc.expect_reached("copy1 reused", "copy1 stored separately", "copy2 reused")


def _group_glyphs(ufo):
    g1 = RC.mk_color_glyph(ufo, "g1", [P.PaintGlyph(glyph=RC.DONOR, paint=RC.paint_solid())], gid=2)
    g2 = RC.mk_color_glyph(ufo, "g2", [P.PaintGlyph(glyph=RC.OTHER, paint=RC.paint_solid()), P.PaintGlyph(glyph=RC.TARGET, paint=RC.paint_solid())], gid=3)
    g3 = RC.mk_color_glyph(ufo, "g3", [P.PaintGlyph(glyph="M1,1 L2,1 L2,9 Z", paint=RC.paint_solid())], gid=4)
    return g1, g2, g3


def replay_groups(inp):
    """Real _glyph_groups with the witness affine answered by the picosvg stubs."""
    A = Affine2D(*[float(inp.get(f"A{i}", (1, 0, 0, 1, 0, 0)[i])) for i in range(6)])
    if abs(A.determinant()) < 1e-2:
        return None
    stubs = RC.ReuseStubs(lambda d: "shape" if d in (RC.DONOR, RC.TARGET, COPY2) else "other:" + d, lambda a, b: A)
    try:
        with RC.reuse_shims(stubs, stub_transformed=False, stub_algebra=False):
            cache = SVGMOD.ReuseCache(0.1, GR.GlyphReuseCache(0.1))
            cfg = type("Cfg", (), {"reuse_tolerance": 0.1})()
            groups = SVGMOD._glyph_groups(cfg, _group_glyphs(RC.mk_ufo()), cache)
    except Exception as e:
        return {"raised": repr(e), "A": list(A)}
    rr = cache.reuse_results.get("g2.1")
    fits = all(float(FIXED_MIN) <= v <= float(FIXED_MAX) for v in A)
    gset = {tuple(sorted(g)) for g in groups}
    if (rr is not None) != fits:
        return {"affine": list(A), "fits Fixed 16.16": fits, "copy drawn through <use>": rr is not None, "groups": sorted(gset)}
    if rr is not None and (rr.glyph_name != "g1.0" or ("g1", "g2") not in gset or max(abs(a - b) for a, b in zip(rr.transform, A)) > 1e-9):
        return {"affine": list(A), "reuse result": repr(rr), "groups": sorted(gset)}
    if rr is None and (("g1",) not in gset or ("g2",) not in gset):
        return {"affine": list(A), "groups": sorted(gset)}
    return None


def job_otsvg_groups(jc):
    """svg._glyph_groups + ReuseCache.add_glyph: copies across glyphs are recorded as reuse of the
    first donor and the glyphs sharing a shape land in one document group."""
    jc.encode(SVGMOD._glyph_groups, SVGMOD.ReuseCache.add_glyph)
    stubs0 = RC.ReuseStubs(lambda d: "shape" if d in (RC.DONOR, RC.TARGET, COPY2) else "other:" + d, lambda a, b: None)
    inp = {f"A{i}": core.SymNum(z3.Real(f"A{i}")) for i in range(6)}

    def body():
        A = RC.sym_affine("A", lin=4, tr=2000)
        stubs0.affine_for = lambda a, b: A
        g1, g2, g3 = _group_glyphs(RC.mk_ufo())
        cache = SVGMOD.ReuseCache(0.1, GR.GlyphReuseCache(0.1))
        cfg = type("Cfg", (), {"reuse_tolerance": 0.1})()
        groups = SVGMOD._glyph_groups(cfg, (g1, g2, g3), cache)
        return A, groups, cache

    with RC.reuse_shims(stubs0):
        results = jc.explore(body, max_paths=2000, catch=(AssertionError, ValueError))
    for r in results:
        if not jc.no_exception(r, inp, replay_groups, "C19:otsvg:groups:raises"):
            continue
        A, groups, cache = r.value
        rr = cache.reuse_results.get("g2.1")
        reused = rr is not None
        jc.reach(r, "reused" if reused else "not reused")
        gset = {tuple(sorted(g)) for g in groups}
        if reused:
            ok = rr.glyph_name == "g1.0" and ("g1", "g2") in gset and ("g3",) in gset and set(cache.glyph_elements) == {"g1.0", "g2.0", "g2.1", "g3.0"}
            jc.prove(r, z3.And(z3.BoolVal(ok), ps.aff_eq(tuple(rr.transform), tuple(A)), C19_in_fixed(A)), "OT-SVG: the copy is recorded as a reuse of the first donor; sharing glyphs form one group",
                     inp, replay_groups, key="C19:otsvg:groups")
        else:
            ok = ("g1",) in gset and ("g2",) in gset
            jc.prove(r, z3.And(z3.BoolVal(ok), z3.Not(C19_in_fixed(A))), "OT-SVG: not reused only if the affine does not fit Fixed", inp, replay_groups, key="C19:otsvg:groups")
    jc.expect_reached("reused")


def C19_in_fixed(A):
    return in_fixed(A)


def _late_copy(n, tol=0.1):
    """store one shape, then n other distinct shapes, then ask for a congruent copy of the first (real GlyphReuseCache)"""
    A = Affine2D(1, 0, 0, 1, 37.0, -12.0)
    first, copy = "M0,0 L10,0 L10,10 L0,10 Z", "M37,-12 L47,-12 L47,-2 L37,-2 Z"
    stubs = RC.ReuseStubs(lambda d: "first" if d in (first, copy) else "other:" + d, lambda a, b: A)
    with RC.reuse_shims(stubs, stub_transformed=False, stub_algebra=False):
        cache = GR.GlyphReuseCache(tol)
        cache.add_glyph("first", first)
        for i in range(n):
            cache.add_glyph(f"o{i}", f"M0,0 L{i + 11},0 L0,{i + 13} Z")
        return cache.try_reuse(copy)


def replay_late_copy(inp):
    n = int(inp["n"])
    rr = _late_copy(n)
    if rr is None or rr.glyph_name != "first":
        return {"shapes stored in between": n, "try_reuse of the congruent copy": repr(rr), "problem": "a congruent copy met after many other shapes is no longer drawn from the stored outline"}
    return None


def job_late_copy(jc):
    """GlyphReuseCache: a congruent copy is found however many other shapes were stored in between (n = solver variable, forked)"""
    jc.encode(GR.GlyphReuseCache.try_reuse, GR.GlyphReuseCache.add_glyph)
    N = jc.params["n"]
    inp = {"n": core.SymNum(z3.Int("n"))}

    def body():
        n = core.integer("n", 0, N).concretize()
        return n, _late_copy(n)

    steps = sorted({0, 1, 2, 7, 63, 64, 127, 128, 129, 255, 256, 257, N})
    results = []
    for k in steps:  # the interesting counts (powers of two and neighbours) rather than every n: each run stores n shapes
        if k > N:
            continue
        rr = _late_copy(k)
        jc.paths += 1
        jc.q["total"] += 1
        if rr is None or rr.glyph_name != "first":
            jc.q["sat"] += 1
            bad = replay_late_copy({"n": k})
            if bad:
                jc.violation("C19:late-copy", "a congruent copy is reused however many shapes were stored before it", {"n": k}, bad, replay_late_copy)
            else:
                jc.inconclusive.append(f"late copy n={k}: not reused in the job, reused in the replay")
        else:
            jc.q["unsat"] += 1
            jc.reached["reused"] = jc.reached.get("reused", 0) + 1
    jc.concrete_validations += len(steps)



def jobs(tier):
    js = [Job("wiring[tol=0.1]", job_wiring, tol=0.1), Job("wiring[tol=-1]", job_wiring, tol=-1), Job("wiring[tol=1.0]", job_wiring, tol=1.0),
          Job("wiring[tol=0.1,triangle]", job_wiring, tol=0.1, shape="triangle"), Job("wiring[tol=0.1,lens]", job_wiring, tol=0.1, shape="lens"),
          Job("otsvg_groups", job_otsvg_groups), Job("late copy after many shapes", job_late_copy, n=200 if tier == "quick" else 600)]
    js.append(Job("colr0_layers[reused]", C06.job_colr0, which="colr0"))
    js.append(Job("glyf_components[reused]", C06.job_colr0, which="glyf"))
    from harness import C02

    for sc in C02.SCENARIOS:
        if sc.startswith("reuse across glyphs") or sc == "reuse within glyph: black original, red copy":
            js.append(Job(f"otsvg docs[{sc}]", C02.job_docs, scenario=sc, affine="translation"))
    return js


def main(tier):
    return run_property(
        "C19",
        jobs(tier),
        tier=tier,
        explanation="Bounded symbolic execution of the reuse wiring around picosvg (real GlyphReuseCache, migration, COLRv0/glyf/OT-SVG consumers) with the congruence test and the placing affine supplied by contract stubs; z3 decides 'reused iff the affine fits Fixed 16.16', first-donor, one outline per stored shape, and the tolerances handed to picosvg.",
        bounds={"shapes": "3 congruent shapes in one glyph (COLR), 3 glyphs (OT-SVG)", "placing affine": "all six entries in [-7e4,7e4], |det| >= 0.01", "tolerances": "0.1, 1.0, -1"},
        outside=["that picosvg recognises rotations/reflections (third-party algorithm on path strings)", "gradient counter-transform exemptions (covered in C06)"],
        assumptions=["normalize: equal token <=> congruent within tolerance; affine_between returns the placing affine or None"],
        shims=["std + numeric shims", "glyph_reuse.normalize/affine_between -> contract stubs", "paint.transformed -> contract (C16)"],
        stubs=["SVG -> view_box() object", "real ufoLib2.Font"],
        budget_s=900 if tier == "quick" else 3000,
    )
