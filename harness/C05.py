"""C05: a COLRv1 clip box never cuts painted content.

Kernels: write_font._bounds, _transformed_glyph_bounds (through fontTools' pure-Python
TransformPen / ControlBoundsPen on a real ufoLib2 glyph), _quantize_bounding_rect, the
clip-box lines of _colr_ufo (default quantisation, glyph->box bookkeeping), Paint.breadth_first
+ every gettransform on the way.
Oracle: every outline control point mapped by the *spec* matrix chain (oracle 2.1) lies inside
the box up to the 1/2-unit otRound; edges are multiples of the step; no paint => no box.
"""
from __future__ import annotations

import contextlib
import math
import os
import tempfile
from fractions import Fraction

import z3

from symx import core, shims
from symx.runner import Job, run_property
from oracle import paint_semantics as ps

import ufoLib2
from fontTools.misc import arrayTools
from fontTools.pens.recordingPen import RecordingPen
from nanoemoji import write_font as WF
from nanoemoji import paint as P
from nanoemoji.colors import Color
from nanoemoji.color_glyph import ColorGlyph
from picosvg.svg_transform import Affine2D
from picosvg.geometric_types import Point

SOLID = P.PaintSolid(color=Color(10, 20, 30, 1.0))

OUTLINES = {
    "square": [("moveTo", [(0, 0)]), ("lineTo", [(100, 0)]), ("lineTo", [(100, 100)]), ("lineTo", [(0, 100)]), ("closePath", [])],
    "triangle": [("moveTo", [(10, -20)]), ("lineTo", [(300, 40)]), ("lineTo", [(-50, 500)]), ("closePath", [])],
    "quad_blob": [("moveTo", [(0, 0)]), ("qCurveTo", [(150, -60), (200, 100)]), ("qCurveTo", [(260, 300), (0, 250)]), ("closePath", [])],
    "cubic_offorigin": [("moveTo", [(600, 700)]), ("curveTo", [(650, 900), (800, 950), (900, 700)]), ("lineTo", [(750, 600)]), ("closePath", [])],
}


@contextlib.contextmanager
def bounds_shims(hash_const=False):
    sl = shims.std_shims() + [
        shims.Shim("fontTools.misc.roundTools", "math", shims.SYM_MATH, "math.floor is C"),
        shims.Shim("fontTools.misc.roundTools", "int", core.sym_int, "int() is C"),
        shims.Shim("nanoemoji.write_font", "math", shims.SYM_MATH, "math.floor/ceil are C"),
        shims.Shim("nanoemoji.write_font", "int", core.sym_int, "int() is C"),
        shims.Shim("nanoemoji.write_font", "round", core.sym_round, "round(upem*0.02)"),
        shims.Shim("fontTools.misc.arrayTools", "min", core.sym_min, "non-forking min (If)"),
        shims.Shim("fontTools.misc.arrayTools", "max", core.sym_max, "non-forking max (If)"),
    ]
    saved = arrayTools.updateBounds.__defaults__
    arrayTools.updateBounds.__defaults__ = (core.sym_min, core.sym_max)
    saved_hash = core.SymNum.__hash__
    if hash_const:
        core.SymNum.__hash__ = lambda self: 0
    try:
        with shims.installed(sl):
            yield sl
    finally:
        arrayTools.updateBounds.__defaults__ = saved
        core.SymNum.__hash__ = saved_hash


def make_ufo(outlines):
    ufo = ufoLib2.Font()
    ufo.info.unitsPerEm = 1000
    for name, ops in outlines.items():
        g = ufo.newGlyph(name)
        pen = g.getPen()
        for op, pts in ops:
            getattr(pen, op)(*pts)
    ufo.newGlyph("base")
    return ufo


def control_points(ufo, name):
    rec = RecordingPen()
    ufo[name].draw(rec)
    return [pt for _, pts in rec.value for pt in pts if pt is not None]


def color_glyph(ufo, layers):
    return ColorGlyph(ufo, "", "", "base", 2, (0x41,), tuple(layers), None, Affine2D.identity(), None)


# ---------------------------------------------------------------- paint templates


def R(n, lo, hi):
    return core.real(n, lo, hi)


LIN = 300
TR = 40000


# nanoemoji's own trees carry at most ONE transform paint above a PaintGlyph (the result of
# paint.transformed in _migrate_paths_to_ufo_glyphs), possibly inside PaintColrLayers /
# the group-opacity PaintComposite. Templates are restricted to that shape: nested
# transforms above a glyph are not reachable (see DESIGN, latent observation L1).


def G(g):
    return P.PaintGlyph(glyph=g, paint=SOLID)


def T_identity(g):
    return G(g)


def T_general(g, sfx=""):
    return P.PaintTransform(transform=(R("a" + sfx, -LIN, LIN), R("b" + sfx, -LIN, LIN), R("c" + sfx, -LIN, LIN), R("d" + sfx, -LIN, LIN), R("e" + sfx, -TR, TR), R("f" + sfx, -TR, TR)), paint=G(g))


def T_general_named(g, sfx):
    return T_general(g, sfx)


def T_translate(g):
    return P.PaintTranslate(dx=R("dx", -TR, TR), dy=R("dy", -TR, TR), paint=G(g))


def T_scale(g):
    return P.PaintScale(scaleX=R("sx", -2, 2), scaleY=R("sy", -2, 2), paint=G(g))


def T_scale_center(g):
    return P.PaintScaleAroundCenter(scaleX=R("sx", -2, 2), scaleY=R("sy", -2, 2), center=Point(R("cx", -32768, 32767), R("cy", -32768, 32767)), paint=G(g))


def T_uniform(g):
    return P.PaintScaleUniform(scale=R("s", -2, 2), paint=G(g))


def T_uniform_center(g):
    return P.PaintScaleUniformAroundCenter(scale=R("s", -2, 2), center=Point(R("cx", -32768, 32767), R("cy", -32768, 32767)), paint=G(g))


def T_group(g):
    return P.PaintComposite(mode=P.CompositeMode.SRC_IN, backdrop=P.PaintSolid(Color(0, 0, 0, 0.5)),
                            source=P.PaintColrLayers(layers=(G(g), T_general(g, "2"))))


def T_layers3(g):
    return P.PaintColrLayers(layers=(T_translate(g), T_scale(g), G(g)))


TEMPLATES = {
    "identity": T_identity,
    "PaintTransform": T_general,
    "PaintTranslate": T_translate,
    "PaintScale": T_scale,
    "PaintScaleAroundCenter": T_scale_center,
    "PaintScaleUniform": T_uniform,
    "PaintScaleUniformAroundCenter": T_uniform_center,
    "group(layers)": T_group,
    "layers3": T_layers3,
}


def sym_names(r):
    """All named real inputs occurring in the path constraints (for replay)."""
    names = set()
    todo = list(r.constraints())
    seen = set()
    while todo:
        t = todo.pop()
        if t.get_id() in seen:
            continue
        seen.add(t.get_id())
        if z3.is_const(t) and t.decl().kind() == z3.Z3_OP_UNINTERPRETED:
            names.add(str(t))
        todo.extend(t.children())
    return sorted(n for n in names if "!" not in n)


# ---------------------------------------------------------------- oracle + property


def box_contains(box, leaves, ufo, factor, points=None):
    conj = []
    xMin, yMin, xMax, yMax = [core.as_term(v) for v in box]
    half = z3.RealVal(Fraction(1, 2))
    for leaf in leaves:
        for pt in (points if points is not None else control_points(ufo, leaf.glyph)):
            qx, qy = ps.apply(leaf.M, pt)
            qx, qy = core.as_term(qx), core.as_term(qy)
            conj += [xMin <= qx + half, qx - half <= xMax, yMin <= qy + half, qy - half <= yMax]
    if factor > 1:
        for v in box:
            t = core.to_z3(v)
            if t.sort() == z3.IntSort():
                conj.append(t % factor == 0)
            else:
                conj.append(z3.ToReal(z3.ToInt(t / factor)) * factor == t)
    return z3.And(*conj)


def replay_bounds(inp):
    """Rebuild the paint with concrete floats and compare _bounds against concrete points."""
    tmpl, outline, factor = inp["template"], inp["outline"], inp["factor"]
    vals = {k: float(v) for k, v in inp.items() if k not in ("template", "outline", "factor")}
    ufo = make_ufo({outline: OUTLINES[outline]})

    def conc(n, lo, hi):
        return vals.get(n, 0.0)

    global R
    saved = R
    R = conc
    try:
        layer = TEMPLATES[tmpl](outline)
    finally:
        R = saved
    cg = color_glyph(ufo, [layer])
    try:
        box = WF._bounds(cg, factor)
    except Exception as e:
        return {"raised": repr(e)}
    leaves = ps.denote(layer)
    worst = 0.0
    for leaf in leaves:
        for pt in control_points(ufo, leaf.glyph):
            qx, qy = ps.apply(leaf.M, pt)
            if box is None:
                return {"box": None, "but painted point": [qx, qy]}
            worst = max(worst, box[0] - qx, qx - box[2], box[1] - qy, qy - box[3])
    bad_step = factor > 1 and any(v % factor for v in box)
    if worst > 0.5 + 1e-6 or bad_step:
        return {"box": list(box), "protrusion": worst, "edges_multiple_of_step": not bad_step, "paint": repr(layer)[:300]}
    return None


def job_bounds(jc):
    jc.encode(WF._bounds, WF._transformed_glyph_bounds, WF._quantize_bounding_rect, P.Paint.breadth_first)
    tmpl, outline, factor = jc.params["template"], jc.params["outline"], jc.params["factor"]
    ufo = make_ufo({outline: OUTLINES[outline]})

    def body():
        layer = TEMPLATES[tmpl](outline)
        cg = color_glyph(ufo, [layer])
        box = WF._bounds(cg, factor)
        return layer, box

    with bounds_shims():
        results = jc.explore(body, feas_timeout_ms=1500)
    for r in results:
        names = sym_names(r)
        inp = {"template": tmpl, "outline": outline, "factor": factor}
        inp.update({n: core.SymNum(z3.Real(n)) for n in names})
        if not jc.no_exception(r, inp, replay_bounds, "C05:bounds:raises"):
            continue
        layer, box = r.value
        with core.post(r):
            leaves = ps.denote(layer)
        if box is None:
            jc.prove(r, z3.BoolVal(False), "painted glyph must have a box", inp, replay_bounds, key="C05:bounds:missing")
            continue
        jc.reach(r, "box")
        jc.prove(r, box_contains(box, leaves, ufo, factor), "box ⊇ every transformed control point (±1/2); edges ≡ 0 mod step",
                 inp, replay_bounds, key="C05:bounds:contains", timeout_ms=60000)
        jc.sample(template=tmpl, outline=outline, factor=factor, box=[repr(v)[:60] for v in box][:2])
    jc.expect_reached("box")


# ---------------------------------------------------------------- symbolic outline vertices

MATRICES = {"rot90": (0, 1, -1, 0), "flipX": (-1, 0, 0, 1), "flipY": (1, 0, 0, -1), "scale2": (2, 0, 0, 2), "shear": (1, 0.5, 0, 1), "squash": (0.5, 0, 0, 1.25), "rot45ish": (0.75, 0.625, -0.625, 0.75)}


def sym_outline():
    v = lambda n: core.real(n, -2000, 2000)
    return [("moveTo", [(v("x0"), v("y0"))]), ("lineTo", [(v("x1"), v("y1"))]), ("qCurveTo", [(v("x2"), v("y2")), (v("x3"), v("y3"))]), ("closePath", [])]


def replay_symverts(inp):
    m, factor = inp["matrix"], inp["factor"]
    g = lambda n: float(inp.get(n, 0.0))
    ops = [("moveTo", [(g("x0"), g("y0"))]), ("lineTo", [(g("x1"), g("y1"))]), ("qCurveTo", [(g("x2"), g("y2")), (g("x3"), g("y3"))]), ("closePath", [])]
    ufo = make_ufo({"sym": ops})
    layer = P.PaintTransform(transform=MATRICES[m] + (g("dx"), g("dy")), paint=G("sym"))
    try:
        box = WF._bounds(color_glyph(ufo, [layer]), factor)
    except Exception as e:
        return {"raised": repr(e)}
    worst = 0.0
    for pt in control_points(ufo, "sym"):
        qx, qy = ps.apply(layer.transform, pt)
        worst = max(worst, box[0] - qx, qx - box[2], box[1] - qy, qy - box[3])
    if worst > 0.5 + 1e-6 or (factor > 1 and any(v % factor for v in box)):
        return {"box": list(box), "protrusion": worst, "outline": ops, "transform": list(layer.transform)}
    return None


def job_bounds_symverts(jc):
    """Outline vertices symbolic, linear part of the placing transform from a finite list, translation symbolic."""
    jc.encode(WF._bounds, WF._transformed_glyph_bounds, WF._quantize_bounding_rect)
    m, factor = jc.params["matrix"], jc.params["factor"]
    names = [f"{a}{i}" for i in range(4) for a in "xy"] + ["dx", "dy"]
    inp = {n: core.SymNum(z3.Real(n)) for n in names}
    inp.update({"matrix": m, "factor": factor})

    def body():
        ufo = make_ufo({})
        # point pen: the segment-pen adapter guesses smoothness with math.atan2 (C)
        pp = ufo.newGlyph("sym").getPointPen()
        ops = sym_outline()
        pp.beginPath()
        pp.addPoint(ops[0][1][0], "line")
        pp.addPoint(ops[1][1][0], "line")
        pp.addPoint(ops[2][1][0], None)
        pp.addPoint(ops[2][1][1], "qcurve")
        pp.endPath()
        layer = P.PaintTransform(transform=MATRICES[m] + (core.real("dx", -TR, TR), core.real("dy", -TR, TR)), paint=G("sym"))
        pts = [ops[0][1][0], ops[1][1][0], ops[2][1][0], ops[2][1][1]]
        return ufo, layer, WF._bounds(color_glyph(ufo, [layer]), factor), pts

    with bounds_shims():
        results = jc.explore(body, feas_timeout_ms=1500)
    for r in results:
        if not jc.no_exception(r, inp, replay_symverts, "C05:symverts:raises"):
            continue
        ufo, layer, box, pts = r.value
        jc.reach(r, "box")
        with core.post(r):
            leaves = ps.denote(layer)
        jc.prove(r, box_contains(box, leaves, ufo, factor, points=pts), "box ⊇ every transformed control point of an outline with symbolic vertices; edges ≡ 0 mod step",
                 inp, replay_symverts, key="C05:symverts:contains", timeout_ms=60000)
    jc.expect_reached("box")


# ---------------------------------------------------------------- _colr_ufo clip-box bookkeeping


def job_colr_ufo(jc):
    """Real _colr_ufo(1, …) on two or three colour glyphs (painted / paints nothing / painted),
    _migrate_paths_to_ufo_glyphs stubbed (names pre-assigned). Checks: glyph that paints nothing
    has no clip box; each painted glyph's box contains its own points; default step = round(2% upem)."""
    import ufo2ft

    jc.encode(WF._colr_ufo, WF._bounds)
    upem, quant, order = jc.params["upem"], jc.params["quant"], jc.params["order"]
    ufo = make_ufo({"square": OUTLINES["square"], "triangle": OUTLINES["triangle"]})
    for n in ("g0", "g1", "g2"):
        ufo.newGlyph(n)
    cfg = type("Cfg", (), {"reuse_tolerance": 0.1, "clipbox_quantization": quant, "upem": upem})()
    factor = quant if quant is not None else round(upem * 0.02)

    def body():
        layers = {
            "P": lambda sfx: [T_general_named("square", sfx)],
            "Q": lambda sfx: [P.PaintTranslate(dx=R("dx" + sfx, -TR, TR), dy=R("dy" + sfx, -TR, TR), paint=P.PaintGlyph(glyph="triangle", paint=SOLID))],
            "E": lambda sfx: [],
        }
        cgs = []
        for i, kind in enumerate(order):
            cgs.append(ColorGlyph(ufo, "", "", f"g{i}", 2 + i, (0x41 + i,), tuple(layers[kind](str(i))), None, Affine2D.identity(), None))
        ufo.lib.pop(ufo2ft.constants.COLR_CLIP_BOXES_KEY, None)
        WF._colr_ufo(1, cfg, ufo, tuple(cgs))
        boxes = ufo.lib.get(ufo2ft.constants.COLR_CLIP_BOXES_KEY, [])
        return cgs, [(list(g), tuple(b)) for g, b in boxes]

    extra = [shims.Shim("nanoemoji.write_font", "_migrate_paths_to_ufo_glyphs", lambda g, cache: g, "names pre-assigned; migration is C01/C06's subject"),
             shims.Shim("nanoemoji.write_font", "uniq_sort_cpal_colors", lambda cols: [Color(0, 0, 0, 1.0), SOLID.color], "palette is C15's subject")]
    with bounds_shims(hash_const=True), shims.installed(extra):
        results = jc.explore(body, feas_timeout_ms=1500)
    for r in results:
        if r.exc is not None:
            jc.inconclusive.append(f"_colr_ufo raised {r.exc!r}")
            continue
        cgs, boxes = r.value
        jc.reach(r, "ok")
        conj = []
        for cg in cgs:
            mine = [b for names, b in boxes if cg.ufo_glyph_name in names]
            if not cg.painted_layers:
                conj.append(z3.BoolVal(len(mine) == 0))
                continue
            if len(mine) != 1:
                conj.append(z3.BoolVal(False))
                continue
            with core.post(r):
                leaves = [lf for layer in cg.painted_layers for lf in ps.denote(layer)]
            conj.append(box_contains(mine[0], leaves, ufo, factor))
        jc.prove(r, z3.And(*conj), "_colr_ufo: no paint => no clip box; each box contains its own glyph; step = config or round(2% upem)",
                 dict({"order": order, "upem": upem, "quant": quant}, **{n + str(i): core.SymNum(z3.Real(n + str(i))) for i in range(len(order)) for n in ("a", "b", "c", "d", "e", "f", "dx", "dy")}),
                 replay_colr_ufo, key="C05:colr_ufo:boxes", timeout_ms=60000)
        jc.sample(order=order, boxes=[[n, [repr(v)[:40] for v in b][:1]] for n, b in boxes])


def replay_colr_ufo(inp):
    """Concrete re-run on representative values (structure is what matters here)."""
    import ufo2ft

    order, upem, quant = inp["order"], inp["upem"], inp["quant"]
    ufo = make_ufo({"square": OUTLINES["square"], "triangle": OUTLINES["triangle"]})
    for n in ("g0", "g1", "g2"):
        ufo.newGlyph(n)
    cfg = type("Cfg", (), {"reuse_tolerance": 0.1, "clipbox_quantization": quant, "upem": upem})()
    factor = quant if quant is not None else round(upem * 0.02)
    cgs = []
    for i, kind in enumerate(order):
        v = lambda n, d: float(inp.get(n + str(i), d))  # the solver's witness; representative values where it left them free
        layers = {"P": [P.PaintTransform(transform=(v("a", 1.5), v("b", 0.25), v("c", -0.5), v("d", 2.0), v("e", 30.0 * (i + 1)), v("f", -700.0)), paint=P.PaintGlyph(glyph="square", paint=SOLID))],
                  "Q": [P.PaintTranslate(dx=v("dx", 333.0 + i), dy=v("dy", -41.0), paint=P.PaintGlyph(glyph="triangle", paint=SOLID))], "E": []}[kind]
        cgs.append(ColorGlyph(ufo, "", "", f"g{i}", 2 + i, (0x41 + i,), tuple(layers), None, Affine2D.identity(), None))
    saved = WF._migrate_paths_to_ufo_glyphs
    WF._migrate_paths_to_ufo_glyphs = lambda g, cache: g
    try:
        WF._colr_ufo(1, cfg, ufo, tuple(cgs))
    finally:
        WF._migrate_paths_to_ufo_glyphs = saved
    boxes = ufo.lib.get(ufo2ft.constants.COLR_CLIP_BOXES_KEY, [])
    bad = []
    for cg in cgs:
        mine = [tuple(b) for names, b in boxes if cg.ufo_glyph_name in names]
        if not cg.painted_layers:
            if mine:
                bad.append({"glyph": cg.ufo_glyph_name, "paints nothing but has box": mine})
            continue
        if len(mine) != 1:
            bad.append({"glyph": cg.ufo_glyph_name, "boxes": mine})
            continue
        b = mine[0]
        for layer in cg.painted_layers:
            for lf in ps.denote(layer):
                for pt in control_points(ufo, lf.glyph):
                    qx, qy = ps.apply(lf.M, pt)
                    if max(b[0] - qx, qx - b[2], b[1] - qy, qy - b[3]) > 0.5 + 1e-6:
                        bad.append({"glyph": cg.ufo_glyph_name, "box": b, "point": [qx, qy]})
        if factor > 1 and any(v % factor for v in b):
            bad.append({"glyph": cg.ufo_glyph_name, "box": b, "step": factor})
    return {"violations": bad[:4]} if bad else None


# ---------------------------------------------------------------- QF_FP division lemma


def fp_lemma_smt2(max_x: int, max_f: int, op: str) -> str:
    """For binary64 integers |x| <= max_x, 1 <= f <= max_f:
    floor(x / f) computed in doubles equals the exact integer floor (resp. ceil)."""
    rnd = "RTN" if op == "floor" else "RTP"
    if op == "floor":
        goal = "(and (fp.leq (fp.mul RNE fl f) x) (fp.lt x (fp.mul RNE (fp.add RNE fl one) f)))"
    else:
        goal = "(and (fp.geq (fp.mul RNE fl f) x) (fp.gt x (fp.mul RNE (fp.sub RNE fl one) f)))"
    return f"""(set-logic QF_FP)
(declare-const x (_ FloatingPoint 11 53))
(declare-const f (_ FloatingPoint 11 53))
(define-fun one () (_ FloatingPoint 11 53) ((_ to_fp 11 53) RNE 1.0))
(define-fun mx () (_ FloatingPoint 11 53) ((_ to_fp 11 53) RNE {max_x}.0))
(define-fun mf () (_ FloatingPoint 11 53) ((_ to_fp 11 53) RNE {max_f}.0))
(assert (not (fp.isNaN x)))
(assert (not (fp.isNaN f)))
(assert (fp.eq x (fp.roundToIntegral RTZ x)))
(assert (fp.eq f (fp.roundToIntegral RTZ f)))
(assert (fp.leq (fp.abs x) mx))
(assert (fp.eq f mf))
(define-fun q () (_ FloatingPoint 11 53) (fp.div RNE x f))
(define-fun fl () (_ FloatingPoint 11 53) (fp.roundToIntegral {rnd} q))
(assert (not {goal}))
(check-sat)
"""


def job_fp_lemma(jc):
    """int(math.floor(x / factor) * factor) in _quantize_bounding_rect: the float division
    never lands on the wrong side of an integer (QF_FP, decided by z3; cross-checked with
    /usr/bin/z3 and cvc5 in the thorough tier)."""
    import subprocess, time

    jc.encode(WF._quantize_bounding_rect)
    op = jc.params["op"]
    max_x, max_f = jc.params["max_x"], jc.params["max_f"]
    text = fp_lemma_smt2(max_x, max_f, op)
    s = z3.Solver()
    s.set("timeout", 240000)
    s.from_string(text)
    t = time.time()
    res = s.check()
    dt = time.time() - t
    jc.solver_s += dt
    jc.q["total"] += 1
    jc.paths += 1
    lab = f"QF_FP lemma: {op}(x/f) in binary64 is the exact integer {op} for |x|<={max_x}, f={max_f}"
    ob = jc.obligations.setdefault(lab, {"unsat": 0, "sat": 0, "unknown": 0})
    if res == z3.unsat:
        jc.q["unsat"] += 1
        ob["unsat"] += 1
    elif res == z3.sat:
        jc.q["sat"] += 1
        ob["sat"] += 1
        m = s.model()
        xs = [d for d in m.decls()]
        vals = {str(d): str(m[d]) for d in xs}
        # replay with real doubles
        try:
            x = float(eval(vals["x"].replace("*(2**", "*(2.0**"))) if False else None
        except Exception:
            x = None
        jc.inconclusive.append(f"{lab}: solver says sat {vals}; needs concrete confirmation")
    else:
        jc.q["unknown"] += 1
        ob["unknown"] += 1
        jc.inconclusive.append(f"{lab}: unknown after {dt:.0f}s")
    jc.sample(lemma=lab, verdict=str(res), seconds=round(dt, 1))
    if jc.tier == "thorough" and res == z3.unsat:
        d = tempfile.mkdtemp(prefix="c05fp_")
        path = os.path.join(d, "lemma.smt2")
        try:
            with open(path, "w") as f:
                f.write(text)
            for cmd in (["cvc5", "--tlimit=600000", path],):
                try:
                    out = subprocess.run(cmd, capture_output=True, text=True, timeout=700).stdout.strip()
                except Exception as e:
                    out = f"error {e}"
                jc.notes.append(f"cross-check {cmd[0]}: {out[:60]}")
                if "(error" in out or out.split("\n")[0] not in ("unsat",):
                    if out.startswith("sat"):
                        jc.inconclusive.append(f"{lab}: solvers disagree ({cmd[0]} says {out[:40]})")
        finally:
            import shutil

            shutil.rmtree(d, ignore_errors=True)
    # exhaustive concrete confirmation on the boundary family (translator validation)
    for x in (-65536, -65535, -4097, -1, 0, 1, 4095, 65535, 65536):
        for f in (1, 2, 3, 7, 20, 41, 64, 4095, 4096):
            got = WF._quantize_bounding_rect(x, x, x, x, f)
            want = ((x // f) * f, (x // f) * f, -((-x) // f) * f, -((-x) // f) * f)
            if tuple(got) != want:
                jc.violation("C05:quantize:float-division", "quantize concrete", {"x": x, "f": f}, {"got": got, "want": want})
            jc.concrete_validations += 1


def jobs(tier):
    js = []
    upems = [100, 1000, 1024, 2048]
    factors = sorted({1, 2, 5, 20, 41, 64} | {round(0.02 * u) for u in upems})
    if tier == "quick":
        outlines = ["square", "quad_blob"]
        combos = []
        for t in TEMPLATES:
            for o in outlines:
                for f in (factors if t in ("PaintTransform",) and o == "square" else (1, 20)):
                    combos.append((t, o, f))
    else:
        combos = [(t, o, f) for t in TEMPLATES for o in OUTLINES for f in factors]
    for t, o, f in combos:
        js.append(Job(f"bounds[{t},{o},step={f}]", job_bounds, template=t, outline=o, factor=f))
    orders = ["PE", "EP", "PEQ", "PQ", "E"] if tier == "quick" else ["PE", "EP", "PEQ", "PQE", "EPQ", "PQ", "QP", "E", "EE", "PEP"]
    for order in orders:
        for upem, quant in ((1000, None), (2048, None), (1000, 1), (1024, 7)):
            js.append(Job(f"colr_ufo[{order},upem={upem},q={quant}]", job_colr_ufo, order=order, upem=upem, quant=quant))
    for m in (("rot90", "shear") if tier == "quick" else MATRICES):
        for f in ((1, 20) if tier == "quick" else (1, 7, 20, 41)):
            js.append(Job(f"bounds_symverts[{m},step={f}]", job_bounds_symverts, matrix=m, factor=f))
    for f in [x for x in factors if x > 1]:
        js.append(Job(f"fp_lemma[floor,f={f}]", job_fp_lemma, op="floor", max_x=65536, max_f=f))
        js.append(Job(f"fp_lemma[ceil,f={f}]", job_fp_lemma, op="ceil", max_x=65536, max_f=f))
    # the shapes the clip box must contain are placed by what paint.transformed emits for the reuse affine
    from harness import C16

    js.append(Job("contract:transformed", C16.job_transformed))
    # ... and compiled from the dictionaries the paints hand to the COLR compiler: those must denote the same matrices
    for kind, _ in C16._mk_transform_paints():
        js.append(Job(f"to_ufo_paint[{kind}]", C16.job_to_ufo_paint, kind=kind))
    return js


def main(tier):
    return run_property(
        "C05",
        jobs(tier),
        tier=tier,
        explanation="Bounded symbolic execution of write_font._bounds/_transformed_glyph_bounds/_quantize_bounding_rect and the clip-box lines of _colr_ufo through fontTools' pens on real ufoLib2 glyphs, with symbolic paint transforms; oracle = spec matrix chain applied to every control point. Plus a QF_FP lemma for the float division in the quantiser.",
        bounds={"linear entries": f"[-{LIN},{LIN}]", "translations": f"[-{TR},{TR}]", "scales (F2Dot14 paints)": "[-2,2]",
                "quantisation steps": "1,2,5,20,41,64 and round(2% upem) for upem in 100,1000,1024,2048",
                "outlines": "concrete: square, triangle, quadratic blob, off-origin cubic; plus one outline with 4 symbolic vertices under a finite list of linear parts and a symbolic translation", "nesting": "one transform paint above a PaintGlyph (all nanoemoji emits); PaintColrLayers of 3; group composite with 2 layers",
                "fp lemma": "|x| <= 65536, step in the list (one QF_FP query per step and per floor/ceil)"},
        outside=["curve extrema vs control box (control box ⊇ curve)", "fontTools glyf coordinate rounding (the 1/2 unit)", "variable clip boxes", "symbolic outline vertices x symbolic linear part (nonlinear)"],
        assumptions=["float as exact real except for the division lemma (QF_FP)", "fontTools min/max replaced by non-forking If (semantically identical)"],
        shims=["std shims", "fontTools.misc.roundTools.math/int", "nanoemoji.write_font.math/int/round", "fontTools.misc.arrayTools min/max + updateBounds defaults"],
        stubs=["_migrate_paths_to_ufo_glyphs -> identity (colr_ufo job)", "uniq_sort_cpal_colors -> fixed palette (colr_ufo job)"],
        budget_s=900 if tier == "quick" else 3400,
    )
