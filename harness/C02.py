"""C02: OT-SVG glyph documents render the same picture as their sources (the emitters).

K1  color_glyph.map_viewbox_to_otsvg_space / transform_for_otsvg_space vs the placement spec
    (job shared with C01, registered here).
K2-K4  svg._picosvg_docs end to end on stub colour glyphs: _glyph_groups, _ensure_groups_grouped_in_glyph_order
    (+ reorder_glyphs on a stub font), _add_glyph, _create_use_element, _apply_paint, _apply_gradient_paint,
    _map_gradient_coordinates, _define_*_gradient, _migrate_to_defs, _tidy_use_elements -- reuse affine and
    gradient geometry symbolic, picosvg reuse detection by contract stubs; the emitted documents are
    interpreted by the SVG-semantics oracle.
K5  structural facts of the document list (also C07): one element per glyph id, ranges, ids, hrefs.
"""
from __future__ import annotations

from fractions import Fraction

import z3
from lxml import etree

from symx import core, shims
from symx.runner import Job, run_property
from oracle import paint_semantics as ps
from oracle import svg_semantics as svs
from harness import reuse_common as RC
from harness import C01
from harness import C16_radial as RS

from nanoemoji import svg as SVGMOD
from nanoemoji import glyph_reuse as GR
from nanoemoji import reorder_glyphs as RG
from nanoemoji import paint as P
from nanoemoji.colors import Color
from nanoemoji.color_glyph import map_viewbox_to_otsvg_space
from picosvg.svg_transform import Affine2D
from picosvg.geometric_types import Point

FLIP = (1, 0, 0, -1, 0, 0)
SQ = "M100,100 L300,100 L300,300 L100,300 Z"
SQ2 = "M500,500 L700,500 L700,700 L500,700 Z"
SQ3 = "M800,100 L1000,100 L1000,300 L800,300 Z"
TRI = "M0,0 L50,0 L0,80 Z"
BLK = P.PaintSolid(Color(0, 0, 0, 1.0))


class StubTTFont:
    def __init__(self, order):
        self._order = list(order)
        self.lazy = False

    def __getitem__(self, tag):
        if tag == "post":
            return type("Post", (), {"formatType": 2})()
        raise KeyError(tag)

    def keys(self):
        return []

    def isLoaded(self, tag):
        return True

    def getGlyphOrder(self):
        return list(self._order)

    def setGlyphOrder(self, order):
        self._order = list(order)


def path_points(d):
    return svs.parse_path(d, {})


def R(n, lo=-3000, hi=3000):
    return core.real(n, lo, hi)


STOPS = RC.STOPS


def lin(sfx=""):
    return P.PaintLinearGradient(stops=STOPS, p0=Point(R("p0x" + sfx), R("p0y" + sfx)), p1=Point(R("p1x" + sfx), R("p1y" + sfx)), p2=Point(R("p2x" + sfx), R("p2y" + sfx)))


def rad(sfx=""):
    return P.PaintRadialGradient(stops=STOPS, c0=Point(R("c0x" + sfx), R("c0y" + sfx)), c1=Point(R("c1x" + sfx), R("c1y" + sfx)), r0=R("r0" + sfx, 0, 3000), r1=R("r1" + sfx, 1, 3000))


# residual transforms above a gradient: concrete (dyadic) squashes/skews; symbolic ones make the
# OT-SVG radial pipeline (two decompositions + Safari nudge) intractable -- their algebra is decided
# on the COLR side (C06/C16) and for the shared svg gradient family in C13
CTS = {"": (1, 0, 0, 0.5, 0, 0), "a": (1, 0, 0, 0.5, 0, 0), "b": (1, 0, 0, 0.25, 0, 0), "k": (1, 0, 0.5, 1, 0, 0)}


def xf(child, sfx=""):
    return P.PaintTransform(transform=CTS[sfx], paint=child)


RED = P.PaintSolid(Color(255, 0, 0, 1.0))
GREEN = P.PaintSolid(Color(0, 128, 0, 0.5))

# scenario -> list of (glyph name, [(path, paint factory)]) in INPUT order, plus congruence classes
SCENARIOS = {
    "1 glyph: solid + linear": lambda: [("e000", [(SQ, lambda: RED), (TRI, lambda: lin())])],
    "1 glyph: solid + radial": lambda: [("e000", [(SQ, lambda: GREEN), (TRI, lambda: rad())])],
    "1 glyph: transform>radial": lambda: [("e000", [(TRI, lambda: xf(rad()))])],
    "reuse within glyph: solid, copy linear": lambda: [("e000", [(SQ, lambda: RED), (SQ2, lambda: lin())])],
    "reuse within glyph: black original, red copy": lambda: [("e000", [(SQ, lambda: BLK), (SQ2, lambda: RED)])],
    "reuse within glyph: radial, copy radial": lambda: [("e000", [(SQ, lambda: rad("a")), (SQ2, lambda: rad("b"))])],
    "reuse within glyph: copy transform>radial": lambda: [("e000", [(SQ, lambda: RED), (SQ2, lambda: xf(rad()))])],
    "reuse within glyph: copy skew>radial": lambda: [("e000", [(SQ, lambda: RED), (SQ2, lambda: xf(rad(), "k"))])],
    "reuse across glyphs: donor listed first, sorts last": lambda: [("u1F602", [(SQ, lambda: RED)]), ("u1F600", [(SQ2, lambda: GREEN)]), ("u1F601", [(TRI, lambda: RED), (SQ3, lambda: lin())])],
    "reuse across glyphs: names in a prefix relation, longer name listed first": lambda: [("g_1f468_1f3fb", [(SQ, lambda: RED)]), ("g_1f468", [(SQ2, lambda: GREEN), (TRI, lambda: RED)])],
    "reuse across glyphs: glyph names with dots, black shape shared": lambda: [("base", [(TRI, lambda: RED)]), ("emoji.alt", [(SQ, lambda: BLK)]), ("emoji", [(SQ2, lambda: BLK), (TRI, lambda: GREEN)])],
    "two docs, same gradient in both": lambda: [("e000", [(TRI, lambda: lin("g"))]), ("e001", [("M1,1 L9,1 L9,7 Z", lambda: lin("g"))])],
    "one doc, two gradients differing only in residual transform": lambda: [("e000", [(SQ, lambda: xf(rad("s"), "a"))]), ("e001", [(SQ2, lambda: xf(rad("s"), "b"))])],
    "three unrelated glyphs listed out of name order": lambda: [("e002", [(TRI, lambda: RED)]), ("e000", [("M1,1 L9,1 L9,7 Z", lambda: GREEN)]), ("e001", [("M2,2 L8,2 L2,9 Z", lambda: RED)])],
    "group opacity": lambda: [("e000", [("GROUP", None)])],
}
CLASSES = {SQ: "sq", SQ2: "sq", SQ3: "sq"}


def build(scenario, affines):
    """-> (ufo, color glyph list in input order, expected per glyph list of (path, class, paint))."""
    spec = SCENARIOS[scenario]()
    ufo = RC.mk_ufo()
    cgs, exp = [], {}
    for gi, (name, layers) in enumerate(spec):
        plist, e = [], []
        for path, mk in layers:
            if path == "GROUP":
                inner = (P.PaintGlyph(glyph=SQ, paint=RED), P.PaintGlyph(glyph=TRI, paint=lin()))
                plist.append(P.PaintComposite(mode=P.CompositeMode.SRC_IN, source=P.PaintColrLayers(inner), backdrop=P.PaintSolid(Color(0, 0, 0, 0.5))))
                e += [(SQ, RED, (0.5,)), (TRI, inner[1].paint, (0.5,))]
                continue
            paint = mk()
            plist.append(P.PaintGlyph(glyph=path, paint=paint))
            e.append((path, paint, ()))
        cgs.append(RC.mk_color_glyph(ufo, name, plist, gid=2 + gi))
        exp[name] = e
    return ufo, cgs, exp


def run_docs(scenario, A_for):
    ufo, cgs, exp = build(scenario, A_for)
    stubs = RC.ReuseStubs(lambda d: CLASSES.get(d, "u:" + d), A_for)
    order = [".notdef", ".space"] + [c.ufo_glyph_name for c in cgs]
    font = StubTTFont(order)
    cfg = type("Cfg", (), {"reuse_tolerance": 0.1, "pretty_print": False})()
    sl = [shims.Shim("nanoemoji.glyph_reuse", "normalize", stubs.normalize, "contract stub"), shims.Shim("nanoemoji.glyph_reuse", "affine_between", stubs.affine_between, "contract stub")]
    with shims.installed(sl):
        docs = SVGMOD._picosvg_docs(cfg, font, tuple(cgs))
    return cgs, exp, font, docs


UNIFORM_REC = RS.Recorder(RS.stub_decompose_uniform)


def c02_shims(stub_inverse=True):
    import contextlib

    @contextlib.contextmanager
    def cm():
        sl = shims.std_shims() + shims.numeric_shims("nanoemoji.svg", "nanoemoji.paint", "nanoemoji.glyph_reuse", "nanoemoji.fixed")
        saved = (Affine2D.decompose_scale, Affine2D.decompose_translation, Affine2D.inverse)
        saved_hash = core.SymNum.__hash__
        core.SymNum.__hash__ = lambda self: 0
        from harness.C13 import stub_projection, _real_projection
        from picosvg.geometric_types import Vector

        sl += [shims.Shim("nanoemoji.paint", "transformed", RS.stub_transformed, "compositional: contract proved in C16"),
               shims.Shim("nanoemoji.paint", "_decompose_uniform_transform", UNIFORM_REC, "compositional: contract proved in C16 (radial job); recorded uniform parts = witness similarities")]
        try:
            with shims.installed(sl):
                Affine2D.decompose_scale = RS.stub_decompose_scale
                Affine2D.decompose_translation = RS.stub_decompose_translation
                if stub_inverse:
                    Affine2D.inverse = RS.stub_inverse
                Vector.projection = stub_projection
                yield
        finally:
            Affine2D.decompose_scale, Affine2D.decompose_translation, Affine2D.inverse = saved
            Vector.projection = _real_projection
            core.SymNum.__hash__ = saved_hash

    return cm()


AFFINE_KINDS = ("translation", "scale+translation", "general")


def sym_pairs(kind="general"):
    """Symbolic placing affines (SVG space) for every ordered pair of congruent shapes.
    'translation': linear part the identity (the common case: repeated shapes);
    'scale+translation': diagonal linear part; 'general': all six entries, assumed generic
    (no entry exactly 0 or 1) so that exact comparisons with special matrices decide at once."""
    out = {}
    for i, (a, b) in enumerate(((SQ, SQ2), (SQ, SQ3), (SQ2, SQ3))):
        r = lambda k, lo, hi: core.real(f"A{i}_{k}", lo, hi)
        if kind == "translation":
            A = Affine2D(1, 0, 0, 1, r(4, -2000, 2000), r(5, -2000, 2000))
        elif kind == "scale+translation":
            A = Affine2D(r(0, -4, 4), 0, 0, r(3, -4, 4), r(4, -2000, 2000), r(5, -2000, 2000))
            core.assume(core.sym_or(A.a >= Fraction(1, 10), A.a <= -Fraction(1, 10)))
            core.assume(core.sym_or(A.d >= Fraction(1, 10), A.d <= -Fraction(1, 10)))
        else:
            A = RC.sym_affine(f"A{i}_", lin=4, tr=2000)
            for v in A:
                core.assume(core.sym_not(v == 0))
                core.assume(core.sym_not(v == 1))
        out[(a, b)] = A
    return out


def structure_and_pictures(r, cgs, exp, font, docs, pairs, tokens, uniforms=None):
    """-> dict label -> (prop, extra). Interprets each document, finds each glyph's element and
    compares with the expected leaves."""
    out = {}
    order = font.getGlyphOrder()
    struct = []
    ranges = []
    by_gid = {}
    roots = []
    for text, lo, hi in docs:
        root = etree.fromstring(text.encode("utf-8") if isinstance(text, str) else text)
        roots.append(root)
        ranges.append((lo, hi))
        ids = [el.attrib["id"] for el in root.iter() if isinstance(el.tag, str) and "id" in el.attrib]
        struct.append(len(ids) == len(set(ids)))
        idset = set(ids)
        glyph_groups = [el for el in root if isinstance(el.tag, str) and el.attrib.get("id", "").startswith("glyph")]
        for el in root.iter():
            if not isinstance(el.tag, str):
                continue
            href = el.attrib.get(svs.XLINK_HREF)
            if href is not None:
                struct.append(href.lstrip("#") in idset)
                # no use may point inside ANOTHER glyph's group
                tgt = [t for t in root.iter() if isinstance(t.tag, str) and t.attrib.get("id") == href.lstrip("#")]
                if tgt:
                    owner = [g for g in glyph_groups if tgt[0] in g.iter()]
                    user = [g for g in glyph_groups if el in g.iter()]
                    struct.append(not owner or owner == user)
            fill = el.attrib.get("fill", "")
            if fill.startswith("url(#"):
                struct.append(fill[5:-1] in idset)
        for g in glyph_groups:
            gid = int(g.attrib["id"][5:])
            struct.append(lo <= gid <= hi and gid not in by_gid)
            by_gid[gid] = (root, g)
    struct.append(ranges == sorted(ranges) and all(a <= b for a, b in ranges) and all(ranges[i][1] < ranges[i + 1][0] for i in range(len(ranges) - 1)))
    struct.append(order[0] == ".notdef" and sorted(order) == sorted([".notdef", ".space"] + [c.ufo_glyph_name for c in cgs]))
    out["documents: unique ids, hrefs/fills resolve in their own document, no reference into another glyph's element, ranges sorted+disjoint, one element per glyph id"] = (z3.BoolVal(all(struct)), [])

    conj_outline, conj_scal, conj_grad, extra = [], [], [], []
    ok_struct = True
    stored = {}  # class -> list of paths already stored (in emission order per the groups)
    for cg in cgs:
        name = cg.ufo_glyph_name
        gid = order.index(name)
        if gid not in by_gid:
            ok_struct = False
            continue
        root, gel = by_gid[gid]
        leaves = svs.denote_svg_subtree(root, gel, tokens)
        want = exp[name]
        if len(leaves) != len(want):
            ok_struct = False
            continue
        Po = tuple(map_viewbox_to_otsvg_space(RC.VIEW_BOX, RC.ASC, RC.DESC, RC.WIDTH, Affine2D.identity()))
        for lf, (path, paint, groups) in zip(leaves, want):
            pts_w = [p for _, pp in path_points(path) for p in pp]
            pts_g = lf.points()
            if len(pts_w) != len(pts_g) or len(groups) != len(lf.groups):
                ok_struct = False
                continue
            # outline: either the element's own path, or a <use> of a congruent donor: by contract the
            # donor mapped by the pair's affine IS this outline, so compare against own points through A when used
            donor_path = lf.el.attrib.get("d")
            donor_raw = [p for _, pp in path_points(donor_path) for p in pp] if donor_path else None
            own = donor_path is not None and [tuple(map(float, p)) for p in donor_raw] == [tuple(map(float, p)) for p in pts_w]
            if own:
                for p, q in zip(pts_w, pts_g):
                    conj_outline.append(ps.pt_eq(ps.apply(Po, p), q))
            else:
                # which stored shape is it? find by raw points
                src = [k for k in CLASSES if [tuple(map(float, p)) for _, pp in path_points(k) for p in pp] == [tuple(map(float, p)) for p in donor_raw]]
                if not src or (src[0], path) not in pairs:
                    ok_struct = False
                    continue
                A = tuple(pairs[(src[0], path)])
                for p, q in zip(donor_raw, pts_g):
                    conj_outline.append(ps.pt_eq(ps.apply(ps.mul(Po, A), p), q, Fraction(1, 100)))
            for x, y in zip(groups, lf.groups):
                conj_scal.append(core.eq_tol(x, y, Fraction(1, 1000)))
            f = ps._fill(paint, FLIP, None)  # font-space fill seen in OT-SVG space (y flipped)
            if f[0] != lf.fill[0]:
                ok_struct = False
                continue
            if f[0] == "solid":
                col = f[1]
                from harness.C13 import parse_svg_color

                k2, rgb2, idx2 = parse_svg_color(lf.fill[1])
                if (rgb2 is None) or tuple(rgb2) != (col.red, col.green, col.blue):
                    ok_struct = False
                conj_scal.append(core.eq_tol(col.alpha, lf.opacity, Fraction(1, 1000)))
                continue
            stops_w, stops_g = f[-2], lf.fill[-2]
            if len(stops_w) != len(stops_g):
                ok_struct = False
                continue
            for sw, (off, cstr, sop) in zip(stops_w, stops_g):
                conj_scal.append(core.eq_tol(sw.stopOffset, off, Fraction(1, 1000)))
                conj_scal.append(core.eq_tol(sw.color.alpha, sop, Fraction(1, 1000)))
            if f[0] == "linear":
                conj_grad.append(ps.linear_same(f[1:4], lf.fill[1:4]))
            elif uniforms is not None:
                # witness similarities: font->viewBox (uniform here) followed by any uniform part the code split off
                from nanoemoji.color_glyph import map_viewbox_to_font_space

                S0 = tuple(map_viewbox_to_font_space(RC.VIEW_BOX, RC.ASC, RC.DESC, RC.WIDTH, Affine2D.identity()).inverse())
                cands = [S0] + [ps.mul(tuple(u), S0) for u in uniforms]
                conj_grad.append(RC.radial_same_witness(lf.fill[1:6], f[1:6], cands))
            else:
                prop, defs = ps.radial_same(f[1:6], lf.fill[1:6])
                conj_grad.append(prop)
                extra += defs
    out["every glyph id has exactly one element with one leaf per source layer, same fill kinds and colours"] = (z3.BoolVal(ok_struct), [])
    if conj_outline:
        out["outlines: each layer's outline at its source position in OT-SVG space (a <use> places the donor by the reuse affine)"] = (z3.And(*conj_outline), [])
    if conj_scal:
        out["opacities, group alphas and stop values agree"] = (z3.And(*conj_scal), [])
    if conj_grad:
        out["gradients colour every point as the source gradient placed in the em box"] = (z3.And(*conj_grad), extra)
    return out


def replay_docs(inp):
    """Concrete end-to-end run with floats; numeric comparison of the same facts."""
    scenario = inp["scenario"]
    vals = {k: float(v) for k, v in inp.items() if k != "scenario"}
    saved_R, saved_real = globals()["R"], core.real
    globals()["R"] = lambda n, lo=-3000, hi=3000: vals.get(n, 1.0 if n.startswith("r1") else 0.0)
    core.real = lambda n, lo=None, hi=None: vals.get(n, 0.0)
    saved_assume = core.assume
    core.assume = lambda c: None
    try:
        pairs = {}
        for i, (a, b) in enumerate(((SQ, SQ2), (SQ, SQ3), (SQ2, SQ3))):
            pairs[(a, b)] = Affine2D(*[vals.get(f"A{i}_{k}", (1, 0, 0, 1, 0, 0)[k]) for k in range(6)])
        if any(abs(T.determinant()) < 1e-2 for T in pairs.values()):
            return None
        try:
            cgs, exp, font, docs = run_docs(scenario, lambda a, b: pairs.get((a, b)))
        except Exception as e:
            return {"raised": repr(e)}
    finally:
        globals()["R"] = saved_R
        core.real = saved_real
        core.assume = saved_assume
    import types

    r = types.SimpleNamespace()
    try:
        props = structure_and_pictures(None, cgs, exp, font, docs, {k: tuple(v) for k, v in pairs.items()}, {})
    except KeyError as e:
        return {"dangling reference": repr(e), "docs": [d[0][:600] for d in docs]}
    bad = {}
    s = z3.Solver()
    for label, (prop, extra) in props.items():
        # concrete: all terms are numerals; allow small numeric slack by re-evaluating with tolerance
        ok = _concrete_holds(prop, extra)
        if not ok:
            bad[label[:60]] = "fails"
    if bad:
        bad["docs"] = [d[0][:900] for d in docs]
        return bad
    return None


def _concrete_holds(prop, extra):
    """Evaluate a ground property with a numeric slack (3-digit output rounding)."""
    s = z3.Solver()
    s.set("timeout", 20000)
    for e in extra:
        s.add(e)
    # relax equalities: ground terms -> use z3 to decide; rounding makes exact equalities fail,
    # so wrap: property holds if it holds after allowing +-0.01 on every compared number
    s.add(z3.Not(_relax(prop)))
    return s.check() == z3.unsat


def _relax(t, eps=z3.RealVal("0.02")):
    if z3.is_and(t):
        return z3.And(*[_relax(c) for c in t.children()])
    if z3.is_or(t):
        return z3.Or(*[_relax(c) for c in t.children()])
    if z3.is_eq(t) and t.arg(0).sort() == z3.RealSort():
        a, b = t.arg(0), t.arg(1)
        scale = z3.If(a >= 0, a, -a) + z3.If(b >= 0, b, -b) + 1
        return z3.And(a - b <= eps * scale, b - a <= eps * scale)
    return t


def job_docs(jc):
    jc.encode(SVGMOD._picosvg_docs, SVGMOD._glyph_groups, SVGMOD._ensure_groups_grouped_in_glyph_order, SVGMOD._add_glyph, SVGMOD._create_use_element, SVGMOD._apply_paint,
              SVGMOD._apply_gradient_paint, SVGMOD._map_gradient_coordinates, SVGMOD._define_linear_gradient, SVGMOD._define_radial_gradient, SVGMOD._apply_gradient_common_parts,
              SVGMOD._migrate_to_defs, SVGMOD._tidy_use_elements, SVGMOD.ReuseCache.add_glyph, RG.reorder_glyphs)
    scenario = jc.params["scenario"]

    kind = jc.params.get("affine", "translation")

    def body():
        pairs = sym_pairs(kind)
        UNIFORM_REC.calls.clear()
        cgs, exp, font, docs = run_docs(scenario, lambda a, b: pairs.get((a, b)))
        return cgs, exp, font, docs, pairs, [tuple(c[2][0]) for c in UNIFORM_REC.calls]

    # for diagonal / translation affines the real Affine2D.inverse (explicit divisions) keeps the
    # queries in few variables; the fresh-variable contract stub is only needed for general matrices
    with c02_shims(stub_inverse=(kind == "general")):
        results = jc.explore(body, round_mode="identity", feas_timeout_ms=400, catch=(AssertionError, ValueError, KeyError, ZeroDivisionError), max_paths=1500)
    from harness.C05 import sym_names

    for r in results:
        inp = {"scenario": scenario}
        inp.update({n: core.SymNum(z3.Real(n)) for n in sym_names(r)})
        if r.exc is not None:
            if isinstance(r.exc, ValueError) and "Expected uniform scale" in str(r.exc):
                jc.reach(r, "rejected-nonuniform")
                continue
            jc.no_exception(r, inp, replay_docs, f"C02:docs:{scenario}:raises")
            continue
        cgs, exp, font, docs, pairs, uniforms = r.value
        jc.reach(r, "ok")
        try:
            with core.post(r):
                props = structure_and_pictures(r, cgs, exp, font, docs, {k: tuple(v) for k, v in pairs.items()}, r.tokens, uniforms)
        except KeyError:
            props = {"documents: every reference resolves": (z3.BoolVal(False), [])}
        for label, (prop, extra) in props.items():
            jc.prove(r, prop, label, inp, replay_docs, key=f"C02:docs:{scenario}", extra=extra, timeout_ms=60000)
        if len(jc.samples) < 1:
            jc.sample(scenario=scenario, doc=docs[0][0][:400] if docs else None)
    jc.expect_reached("ok")


RAW_SOURCES = {
    "plain": '<svg xmlns="http://www.w3.org/2000/svg" viewBox="10 20 200 100" width="200" height="100" enable-background="new"><defs><linearGradient id="a"><stop offset="0" stop-color="red"/></linearGradient></defs><rect x="1" y="2" width="30" height="40" fill="url(#a)"/><g transform="translate(3 4)"><circle cx="5" cy="6" r="7"/></g></svg>',
    "square": '<svg xmlns="http://www.w3.org/2000/svg" viewBox="0 0 128 128"><path d="M1,1 L9,1 L9,9 Z" fill="blue"/></svg>',
}


def _raw_docs(text, asc, desc, width, ux, uy):
    from picosvg.svg import SVG
    from nanoemoji.color_glyph import ColorGlyph

    U = Affine2D(1, 0, 0, 1, ux, uy)
    ufo = type("U", (), {"info": type("I", (), {"ascender": asc, "descender": desc, "familyName": "f"})(), "__getitem__": lambda self, k: type("G", (), {"width": width})()})()
    cg = ColorGlyph(ufo, "f.svg", "", "g", 7, (65,), None, SVG.fromstring(text), U, None)
    cfg = type("Cfg", (), {"pretty_print": False})()
    return SVGMOD._rawsvg_docs(cfg, None, (cg,)), U


def replay_raw(inp):
    """the real _rawsvg_docs on the witness metrics / user shift, compared numerically with the OT-SVG placement spec"""
    text = RAW_SOURCES[inp["source"]]
    src_root = etree.fromstring(text)
    vb = tuple(float(v) for v in src_root.attrib["viewBox"].split())
    asc, desc, width = int(inp["asc"]), int(inp["desc"]), int(inp["width"])
    try:
        docs, U = _raw_docs(text, asc, desc, width, float(inp["ux"]), float(inp["uy"]))
    except Exception as e:
        return {"raised": repr(e)}
    if len(docs) != 1 or docs[0][1] != 7 or docs[0][2] != 7:
        return {"records": [d[1:] for d in docs]}
    root = etree.fromstring(docs[0][0].encode("utf-8"))
    gs = [el for el in root.iter() if isinstance(el.tag, str) and el.attrib.get("id") == "glyph7"]
    if len(gs) != 1 or gs[0].getparent() is not root or len(root) != 1 or ({"viewBox", "width", "height", "enable-background"} & set(root.attrib)):
        return {"structure": docs[0][0][:400]}
    if [(etree.QName(c).localname, dict(c.attrib)) for c in gs[0]] != [(etree.QName(c).localname, dict(c.attrib)) for c in src_root]:
        return {"source content changed": docs[0][0][:400]}
    got = svs.parse_transform(gs[0].attrib.get("transform"), {})
    want = C01.otsvg_spec(vb, asc, desc, width, tuple(U))
    scale = max(1.0, max(abs(float(v)) for v in want))
    if max(abs(float(a) - float(b)) for a, b in zip(got, want)) > 2e-3 * scale:
        return {"transform written": [float(x) for x in got], "placement spec": [float(x) for x in want], "metrics": [asc, desc, width]}
    return None


def job_rawsvg(jc):
    """untouchedsvg: svg._rawsvg_docs wraps the unmodified source in <g id="glyphN" transform=placement>."""
    from picosvg.svg import SVG
    from nanoemoji.color_glyph import ColorGlyph

    jc.encode(SVGMOD._rawsvg_docs, SVGMOD._svg_matrix)
    name = jc.params["source"]
    text = RAW_SOURCES[name]
    src_root = etree.fromstring(text)
    vb = tuple(float(v) for v in src_root.attrib["viewBox"].split())
    inp = {"source": name, "asc": core.SymNum(z3.Int("asc")), "desc": core.SymNum(z3.Int("desc")), "width": core.SymNum(z3.Int("width")), "ux": core.SymNum(z3.Real("ux")), "uy": core.SymNum(z3.Real("uy"))}

    def body():
        asc, desc, width = core.integer("asc", 0, 4000), core.integer("desc", -4000, 0), core.integer("width", 0, 8000)
        core.assume(asc - desc >= 16)
        U = Affine2D(1, 0, 0, 1, core.real("ux", -500, 500), core.real("uy", -500, 500))
        ufo = type("U", (), {"info": type("I", (), {"ascender": asc, "descender": desc, "familyName": "f"})(), "__getitem__": lambda self, k: type("G", (), {"width": width})()})()
        cg = ColorGlyph(ufo, "f.svg", "", "g", 7, (65,), None, SVG.fromstring(text), U, None)
        cfg = type("Cfg", (), {"pretty_print": False})()
        docs = SVGMOD._rawsvg_docs(cfg, None, (cg,))
        want = C01.otsvg_spec(vb, asc, desc, width, tuple(U))
        return docs, want

    with shims.installed(shims.std_shims() + shims.numeric_shims("nanoemoji.svg", "nanoemoji.color_glyph")):
        results = jc.explore(body, round_mode="identity", catch=(ValueError, AssertionError))
    for r in results:
        if not jc.no_exception(r, inp, replay_raw, f"C02:rawsvg:{name}:raises"):
            continue
        docs, want = r.value
        jc.reach(r, "ok")
        ok = len(docs) == 1 and docs[0][1] == 7 and docs[0][2] == 7
        conj = [z3.BoolVal(ok)]
        if ok:
            root = etree.fromstring(docs[0][0].encode("utf-8"))
            gs = [el for el in root.iter() if isinstance(el.tag, str) and el.attrib.get("id") == "glyph7"]
            struct = len(gs) == 1 and gs[0].getparent() is root and len(root) == 1 and not ({"viewBox", "width", "height", "enable-background"} & set(root.attrib))
            if struct:
                kids = [(etree.QName(c).localname, dict(c.attrib)) for c in gs[0]]
                struct = kids == [(etree.QName(c).localname, dict(c.attrib)) for c in src_root]
                got = svs.parse_transform(gs[0].attrib.get("transform"), r.tokens)
                conj.append(ps.aff_eq(got, want))
            conj.append(z3.BoolVal(struct))
        jc.prove(r, z3.And(*conj), "untouched SVG: one document for the glyph id, exactly one element glyph<ID> wrapping the unmodified source content, placed by the OT-SVG placement spec",
                 inp, replay_raw, key=f"C02:rawsvg:{name}")
    jc.expect_reached("ok")


def jobs(tier):
    js = [Job(f"place[otsvg,{u}]", C01.job_place, which="otsvg", user=u) for u in ("identity", "translate", "general")]
    js += [Job(f"rawsvg[{n}]", job_rawsvg, source=n) for n in RAW_SOURCES]
    for s in SCENARIOS:
        reuse = s.startswith("reuse")
        kinds = ("translation",)
        if tier != "quick" and reuse and "radial" not in s and "across" not in s:
            kinds = ("translation", "scale+translation")  # ~3 min per scenario; 'general' does not terminate
        for k in kinds:
            js.append(Job(f"docs[{s}|{k}]", job_docs, scenario=s, affine=k))
    from harness import color_strings

    js += color_strings.jobs(tier)  # every colour written into a document goes through Color.to_string
    from harness import C07_rawsvg, C16

    js += C07_rawsvg.jobs(tier)  # untouched SVG: one record per glyph, in glyph id order
    js.append(Job("contract:transformed", C16.job_transformed))  # a gradient's residual matrix is read back from what transformed() chose
    # colour, stop colour and alpha of every layer come from the source through ColorGlyph.create, whatever the format
    from harness import C01_source

    for name in ("solids+opacity", "fill with its own alpha channel + shape opacity", "palette variable whose default has an alpha channel + shape opacity",
                 "gradient stops with palette variables", "userspace gradients, non-square viewBox"):
        js.append(Job(f"source[{name}|user identity]", C01_source.job_source, source=name, user="identity"))
    return js


def main(tier):
    return run_property(
        "C02",
        jobs(tier),
        tier=tier,
        explanation="Bounded symbolic execution of nanoemoji's OT-SVG emitter (svg._picosvg_docs end to end on stub colour glyphs) with symbolic reuse affines and gradient geometry; each emitted document is parsed back and interpreted by an SVG-semantics oracle (use/defs/userSpaceOnUse gradients) and compared leaf for leaf with the source layers placed in OT-SVG space; plus the OT-SVG placement function against the spec.",
        bounds={"scenarios": f"{len(SCENARIOS)} source sets (1-3 glyphs x 1-2 layers, reuse within/across glyphs, shared gradients, group opacity, glyph names out of input order)", "reuse affines": "linear [-4,4], translation [-2000,2000], |det| >= 0.01 (SVG space)",
                "gradient geometry": "[-3000,3000]", "view box": "0 0 1200 1200 at em height 1200 (scale 1: floats exact)", "rounding": "3-digit output rounding shimmed to identity (algebraic stage)"},
        outside=["picosvg/lxml serialisation details", "_rawsvg_docs string surgery on untouched documents", "compression", "real reuse detection", "renderer behaviour"],
        assumptions=["picosvg normalize/affine_between as contract stubs", "Affine2D.inverse/decompose_*, Vector.projection as contract stubs on symbolic values"],
        shims=["std + numeric shims", "SymNum.__hash__ constant (gradient reuse dict)"],
        stubs=["TTFont -> glyph-order stub with post format 2 and no layout tables", "SVG -> view_box() object"],
        budget_s=900 if tier == "quick" else 3000,
    )
