"""C07: every emitted font is structurally valid for its consumers -- nanoemoji's own index arithmetic.

K1  bitmap_tables.make_cbdt_table/_make_cbdt_strike/_cbdt_bitmapdata_offsets: runs, gid fields, offsets.
K2  glue_together._copy_cbdt resharding.
K3/K4  svg._picosvg_docs: document ranges, ids, hrefs, no cross-glyph references (C02 scenarios).
K5  post-format decision: write_font._ufo keep flag and the tail of _generate_color_font.
K6  reorder rules keep coverage sorted (C11 whole-font job).
"""
from __future__ import annotations

import z3

from symx import core, shims
from symx.runner import Job, run_property

from nanoemoji import write_font as WF
from nanoemoji.config import FontConfig


def _post_case(fmt, keep):
    """tail of the real _generate_color_font with the font compile stubbed; -> post.formatType it leaves"""

    class Post:
        formatType = 2

    class TT(dict):
        pass

    ext = WF._COLOR_FORMAT_GENERATORS[fmt][2] if fmt in WF._COLOR_FORMAT_GENERATORS else ".ttf"
    cfg = FontConfig()._replace(color_format=fmt, keep_glyph_names=keep, output_file="x" + ext, fea_file="")
    tt = TT()
    tt["post"] = Post()
    with shims.installed([
        shims.Shim("nanoemoji.write_font", "_make_ttfont", lambda c, u, g: tt, "ufo2ft compile not under test"),
        shims.Shim("nanoemoji.util", "load_fully", lambda f: f, "reload not under test"),
        shims.Shim("nanoemoji.write_font", "_COLOR_FORMAT_GENERATORS", {fmt: WF.ColorGenerator(lambda *a: None, lambda *a: None, ext)}, "generator not under test"),
        shims.Shim("nanoemoji.write_font", "_draw_notdef", lambda c, u: None, "not under test"),
    ]):
        ufo, ttfont = WF._generate_color_font(cfg, [])
    return ttfont["post"].formatType


def replay_post(inp):
    keep = bool(inp["keep"])
    try:
        ft = _post_case(inp["fmt"], keep)
    except Exception as e:
        return {"raised": repr(e)}
    if ft != (2 if keep else 3):
        return {"color_format": inp["fmt"], "keep_glyph_names": keep, "post.formatType": ft}
    return None


def job_post_format(jc):
    """Tail of _generate_color_font: post format 3 unless glyph names were requested."""
    jc.encode(WF._generate_color_font)
    fmt = jc.params["fmt"]
    inp = {"keep": core.SymBool(z3.Bool("keep")), "fmt": fmt}

    def body():
        keep = core.boolean("keep")
        return keep, _post_case(fmt, keep)

    results = jc.explore(body)
    for r in results:
        if r.exc is not None:
            jc.inconclusive.append(f"_generate_color_font raised {r.exc!r}")
            continue
        keep, ft = r.value
        jc.reach(r, f"post {ft}")
        jc.prove(r, z3.If(keep.t, z3.BoolVal(ft == 2), z3.BoolVal(ft == 3)), "post format 3 unless glyph names were requested", inp, replay_post, key="C07:post-format")
    jc.expect_reached("post 3", "post 2")


def jobs(tier):
    from harness import C07_cbdt, C02, C11, C20

    js = C07_cbdt.jobs(tier) + C07_cbdt.copy_jobs(tier)
    for sc in C02.SCENARIOS:
        js.append(Job(f"svg docs[{sc}]", C02.job_docs, scenario=sc, affine="translation"))
    for fmt in ("glyf_colr_1", "picosvg", "cbdt", "sbix"):
        js.append(Job(f"post_format[{fmt}]", job_post_format, fmt=fmt))
        js.append(Job(f"ufo[{fmt}]", C20.job_ufo, fmt=fmt))
    js.append(Job("reorder whole_font", C11.job_whole_font))
    from harness import C07_rawsvg

    js += C07_rawsvg.jobs(tier) + [Job(f"rawsvg[{n}]", C02.job_rawsvg, source=n) for n in C02.RAW_SOURCES]
    from harness import C04_gid

    js += C04_gid.named_jobs(tier)  # two inputs on one glyph name never yield a font (overlapping SVG / CBLC records)
    return js


def main(tier):
    return run_property(
        "C07",
        jobs(tier),
        tier=tier,
        explanation="Bounded symbolic execution of nanoemoji's own index arithmetic behind structural validity: CBDT/CBLC run splitting and offsets with symbolic glyph ids (build and maximum_color resharding), SVG document ranges/ids/references of the real OT-SVG emitter, the post-format decision, and coverage sortedness after a glyph reorder.",
        bounds={"bitmap glyphs": "<= 3 (quick) / 5 glyphs, symbolic distinct gids up to 60000, every input order", "svg": "the 12 C02 scenarios", "post": "keep_glyph_names symbolic x 3 format families"},
        outside=["'loads, decompiles and re-saves', COLR record sorting, cmap/hmtx/maxp/post agreement: produced by ufo2ft/fontTools, not symbolically executable", "fontTools strike compilation (it recomputes start/endGlyphIndex)"],
        assumptions=["PNG -> bytes subclass with a size; TTFont -> name/gid stubs"],
        shims=["SymNum.__hash__ constant in the CBDT jobs"],
        stubs=["see C02/C11/C20 for the shared jobs"],
        budget_s=900 if tier == "quick" else 3000,
    )
