"""C03: COLRv0 and glyf builds lose only what those formats cannot express.

Kernels: Paint.breadth_first (accumulated transform), write_font._colr0_layers,
_create_transformed_glyph, _ufo_colr_layers (v0 branch), the component loop and
single-component inlining of _glyf_ufo, _draw_glyph_extents and the COLRv0 branch of _colr_ufo.
"""
from __future__ import annotations

from fractions import Fraction

import z3
from fontTools.pens.recordingPen import RecordingPen

from symx import core, shims
from symx.runner import Job, run_property
from oracle import paint_semantics as ps
from harness import reuse_common as RC
from harness import C06, C05

from nanoemoji import write_font as WF
from nanoemoji import glyph_reuse as GR
from nanoemoji import paint as P
from nanoemoji.colors import Color
from picosvg.svg_transform import Affine2D

RED, BLUE, GREY = Color(255, 0, 0, 1.0), Color(0, 0, 255, 0.5), Color(9, 9, 9, 0.25)
PALETTE = [Color(0, 0, 0, 1.0), RED, BLUE, GREY]  # RC.STOPS uses RED and BLUE too
P3 = "M800,100 L1000,100 L1000,300 L800,300 Z"


def replay_v0_layers(inp):
    """Concrete: three shapes, the third congruent to the first by affine A (identity allowed) and
    painted in `third_colour`; COLRv0 must yield exactly three layers in source order."""
    A = Affine2D(*[float(inp.get(f"A{i}", (1, 0, 0, 1, 0, 0)[i])) for i in range(6)])
    same = inp["third_same_colour"]
    fill = inp.get("fill", "solid")
    pairs = {(RC.font_space(RC.DONOR), RC.font_space(P3)): A}
    stubs = RC.ReuseStubs(lambda d: "shape" if d in (RC.font_space(RC.DONOR), RC.font_space(P3)) else d, lambda a, b: pairs.get((a, b)))
    layers = [P.PaintGlyph(glyph=RC.DONOR, paint=_first_paint(fill)), P.PaintGlyph(glyph=RC.OTHER, paint=P.PaintSolid(BLUE)),
              P.PaintGlyph(glyph=P3, paint=_third_paint(fill, same, lambda n, lo=None, hi=None: float(inp.get(n, 0))))]
    ufo = RC.mk_ufo()
    try:
        with RC.reuse_shims(stubs, stub_transformed=False, stub_algebra=False):
            cg = WF._migrate_paths_to_ufo_glyphs(RC.mk_color_glyph(ufo, "base", layers), GR.GlyphReuseCache(0.1))
            out = WF._ufo_colr_layers(0, PALETTE, cg)
    except Exception as e:
        return {"raised": repr(e)}
    want_cols = [RED, BLUE, RED if same else GREY]
    if fill != "solid":
        # a gradient cannot be expressed: only the geometry is claimed (one layer per shape, each outline once, in place)
        if len(out) != 3 or not all(0 <= i < len(PALETTE) for _, i in out):
            return {"layers": out, "A": list(A)}
        leaves = [lf for layer in cg.painted_layers for lf in ps.denote(layer)]
        for (gname, _), lf in zip(out, leaves):
            g = ufo[gname]
            if g.components:
                got = tuple(g.components[0].transformation)
                if len(g.components) != 1 or g.components[0].baseGlyph != lf.glyph or len(g) or max(abs(float(x) - float(y)) for x, y in zip(got, lf.M)) > 2 ** -14 + 1e-9:
                    return {"layer": gname, "component": repr(g.components), "source placement": [float(v) for v in lf.M]}
            elif gname != lf.glyph or max(abs(float(x) - float(y)) for x, y in zip(lf.M, ps.IDENT)) > 1e-9:
                return {"layer": gname, "source glyph": lf.glyph, "source placement": [float(v) for v in lf.M]}
        return None
    if len(out) != 3 or [PALETTE[i] for _, i in out] != want_cols:
        return {"layers": out, "expected colours": [repr(c) for c in want_cols], "A": list(A)}
    return None


# the gradient's own numbers are concrete (the gradient is C06's subject; here only the outline placement is claimed)
_GRAD_NUMS = {"p0x": 820, "p0y": 120, "p1x": 980, "p1y": 140, "p2x": 800, "p2y": 280, "c0x": 900, "c0y": 200, "c1x": 910, "c1y": 190, "r0": 10, "r1": 120}


def _first_paint(fill):
    if fill == "solid":
        return P.PaintSolid(RED)
    from picosvg.geometric_types import Point

    if fill == "linear":
        return P.PaintLinearGradient(stops=RC.STOPS, p0=Point(100, 100), p1=Point(300, 100), p2=Point(100, 300))
    return P.PaintRadialGradient(stops=RC.STOPS, c0=Point(200, 200), c1=Point(200, 200), r0=0, r1=150)


def _third_paint(fill, same, R):
    """The paint of the third (congruent) shape; `R(name, lo, hi)` supplies its numbers (symbolic or witness)."""
    if fill == "solid":
        return P.PaintSolid(RED if same else GREY)
    from picosvg.geometric_types import Point

    if fill == "linear":
        return P.PaintLinearGradient(stops=RC.STOPS, p0=Point(R("p0x"), R("p0y")), p1=Point(R("p1x"), R("p1y")), p2=Point(R("p2x"), R("p2y")))
    return P.PaintRadialGradient(stops=RC.STOPS, c0=Point(R("c0x"), R("c0y")), c1=Point(R("c1x"), R("c1y")), r0=R("r0", 0, 30000), r1=R("r1", 0, 30000))


def job_v0_layers(jc):
    jc.encode(WF._ufo_colr_layers, WF._colr0_layers, WF._create_transformed_glyph, P.Paint.breadth_first)
    same = jc.params["third_same_colour"]
    ident = jc.params["identity"]
    fill = jc.params.get("fill", "solid")
    inp = {f"A{i}": core.SymNum(z3.Real(f"A{i}")) for i in range(6)}
    inp.update({} if fill == "solid" else _GRAD_NUMS)
    inp["third_same_colour"] = same
    inp["fill"] = fill
    stubs0 = RC.ReuseStubs(lambda d: "shape" if d in (RC.font_space(RC.DONOR), RC.font_space(P3)) else d, lambda a, b: None)

    def body():
        if ident:
            A = Affine2D.identity()
            for i, v in enumerate(A):
                core.assume(core.real(f"A{i}") == v)
        else:
            A = RC.sym_affine("A")
        pairs = {(RC.font_space(RC.DONOR), RC.font_space(P3)): A}
        stubs0.affine_for = lambda a, b: pairs.get((a, b))
        layers = [P.PaintGlyph(glyph=RC.DONOR, paint=_first_paint(fill)), P.PaintGlyph(glyph=RC.OTHER, paint=P.PaintSolid(BLUE)),
                  P.PaintGlyph(glyph=P3, paint=_third_paint(fill, same, lambda n, lo=None, hi=None: _GRAD_NUMS[n]))]
        ufo = RC.mk_ufo()
        cg = WF._migrate_paths_to_ufo_glyphs(RC.mk_color_glyph(ufo, "base", layers), GR.GlyphReuseCache(0.1))
        out = WF._ufo_colr_layers(0, PALETTE, cg)
        return A, ufo, cg, out

    with RC.reuse_shims(stubs0, stub_transformed=False, stub_algebra=False):
        results = jc.explore(body, max_paths=3000, catch=(AssertionError, ValueError))
    for r in results:
        if not jc.no_exception(r, inp, replay_v0_layers, "C03:v0:raises"):
            continue
        A, ufo, cg, out = r.value
        jc.reach(r, "ok")
        with core.post(r):
            leaves = [lf for layer in cg.painted_layers for lf in ps.denote(layer)]
        want_cols = [RED, BLUE, RED if same else GREY]
        conj = [z3.BoolVal(len(out) == 3 and len(leaves) == 3)]
        if len(out) == 3 and len(leaves) == 3:
            for (gname, cidx), lf, col in zip(out, leaves, want_cols):
                if fill == "solid":
                    conj.append(z3.BoolVal(PALETTE[cidx] == col))  # v0: alpha lives in the palette entry
                else:
                    conj.append(z3.BoolVal(isinstance(cidx, int) and 0 <= cidx < len(PALETTE)))
                g = ufo[gname]
                if g.components:
                    conj.append(z3.BoolVal(len(g.components) == 1 and g.components[0].baseGlyph == lf.glyph and len(g) == 0))
                    conj.append(ps.aff_eq(tuple(g.components[0].transformation), lf.M, Fraction(1, 1 << 14)))
                else:
                    conj.append(z3.BoolVal(gname == lf.glyph))
                    conj.append(ps.aff_eq(lf.M, ps.IDENT))
        jc.prove(r, z3.And(*conj), "COLRv0: one layer per shape in source z-order, each with its own colour+alpha from the palette, each outline placed once at its source position",
                 inp, replay_v0_layers, key=f"C03:v0:layers:{'same' if same else 'diff'}" + ("" if fill == "solid" else ":" + fill))
    jc.expect_reached("ok")


def replay_extents(inp):
    import ufoLib2

    b = tuple(int(inp[n]) for n in ("x0", "y0", "x1", "y1"))
    ufo = ufoLib2.Font()
    g = ufo.newGlyph("g")
    try:
        WF._draw_glyph_extents(ufo, g, b)
    except Exception as e:
        return {"raised": repr(e), "box": list(b)}
    pen = RecordingPen()
    g.draw(pen)
    pts = [p for _, a in pen.value for p in a]
    area = (b[2] - b[0]) * (b[3] - b[1])
    if (area == 0) != (not pen.value) or (pen.value and ([o for o, _ in pen.value] != ["moveTo", "lineTo", "endPath"] or [tuple(p) for p in pts] != [(b[0], b[1]), (b[2], b[3])])):
        return {"box": list(b), "drawn": repr(pen.value)}
    return None


def job_extents(jc):
    """_draw_glyph_extents: the two points drawn are the box corners; zero area draws nothing."""
    import ufoLib2

    jc.encode(WF._draw_glyph_extents)
    names = ["x0", "y0", "x1", "y1"]
    inp = {n: core.SymNum(z3.Int(n)) for n in names}

    def body():
        b = tuple(core.integer(n, -40000, 40000) for n in names)
        core.assume(b[0] <= b[2])
        core.assume(b[1] <= b[3])
        ufo = ufoLib2.Font()
        g = ufo.newGlyph("g")
        WF._draw_glyph_extents(ufo, g, b)
        pen = RecordingPen()
        g.draw(pen)
        return b, pen.value

    sl = [shims.Shim("fontTools.misc.arrayTools", "min", core.sym_min, "non-forking"), shims.Shim("fontTools.misc.arrayTools", "max", core.sym_max, "non-forking")]
    with shims.installed(sl + shims.numeric_shims("nanoemoji.write_font")):
        results = jc.explore(body)
    for r in results:
        if not jc.no_exception(r, inp, replay_extents, "C03:extents:raises"):
            continue
        b, ops = r.value
        area = (core.as_term(b[2]) - core.as_term(b[0])) * (core.as_term(b[3]) - core.as_term(b[1]))
        if not ops:
            jc.reach(r, "nothing drawn")
            jc.prove(r, area == 0, "nothing is drawn only for a zero-area box", inp, replay_extents, key="C03:extents")
        else:
            jc.reach(r, "drawn")
            pts = [p for _, a in ops for p in a]
            ok = [o for o, _ in ops] == ["moveTo", "lineTo", "endPath"] and len(pts) == 2
            conj = [z3.BoolVal(ok), area != 0]
            if ok:
                conj += [core.as_term(pts[0][0]) == core.as_term(b[0]), core.as_term(pts[0][1]) == core.as_term(b[1]), core.as_term(pts[1][0]) == core.as_term(b[2]), core.as_term(pts[1][1]) == core.as_term(b[3])]
            jc.prove(r, z3.And(*conj), "the open two-point contour spans exactly the box corners", inp, replay_extents, key="C03:extents")
    jc.expect_reached("drawn", "nothing drawn")


def replay_colr0_extents(inp):
    """_colr_ufo(0, ...) on the witness transform: the two extent points of the base glyph must cover both layers."""
    ufo = C05.make_ufo({"square": C05.OUTLINES["square"], "triangle": C05.OUTLINES["triangle"]})
    for n in ("g0", "g1"):
        ufo.newGlyph(n)
    cfg = type("Cfg", (), {"reuse_tolerance": 0.1, "clipbox_quantization": None, "upem": 1000})()
    from nanoemoji.color_glyph import ColorGlyph

    t = tuple(float(inp[n + "0"]) for n in "abcdef")
    l0 = [P.PaintTransform(transform=t, paint=C05.G("square")), C05.G("triangle")]
    cgs = [ColorGlyph(ufo, "", "", "g0", 2, (0x41,), tuple(l0), None, Affine2D.identity(), None), ColorGlyph(ufo, "", "", "g1", 3, (0x42,), (), None, Affine2D.identity(), None)]
    saved = WF._migrate_paths_to_ufo_glyphs
    WF._migrate_paths_to_ufo_glyphs = lambda g, cache: g
    try:
        WF._colr_ufo(0, cfg, ufo, tuple(cgs))
    except Exception as e:
        return {"raised": repr(e)}
    finally:
        WF._migrate_paths_to_ufo_glyphs = saved
    pen = RecordingPen()
    ufo["g0"].draw(pen)
    pts = [p for _, a in pen.value for p in a]
    pen1 = RecordingPen()
    ufo["g1"].draw(pen1)
    if pen1.value:
        return {"glyph that paints nothing was drawn into": pen1.value}
    if len(pts) != 2:
        return {"extent points": pts}
    b = (pts[0][0], pts[0][1], pts[1][0], pts[1][1])
    for layer in l0:
        for lf in ps.denote(layer):
            for pt in C05.control_points(ufo, lf.glyph):
                qx, qy = ps.apply(lf.M, pt)
                if max(b[0] - qx, qx - b[2], b[1] - qy, qy - b[3]) > 0.5 + 1e-6:
                    return {"extents": list(b), "layer point outside": [qx, qy], "transform": list(t)}
    return None


def job_colr0_extents(jc):
    """_colr_ufo(0, …): the base glyph of a painted colour glyph gets extents that cover every layer."""
    import ufo2ft

    jc.encode(WF._colr_ufo, WF._bounds, WF._draw_glyph_extents)
    ufo = C05.make_ufo({"square": C05.OUTLINES["square"], "triangle": C05.OUTLINES["triangle"]})
    for n in ("g0", "g1"):
        ufo.newGlyph(n)
    cfg = type("Cfg", (), {"reuse_tolerance": 0.1, "clipbox_quantization": None, "upem": 1000})()
    inp = {n + "0": core.SymNum(z3.Real(n + "0")) for n in "abcdef"}

    def body():
        from nanoemoji.color_glyph import ColorGlyph

        for n in ("g0", "g1"):
            ufo[n].clearContours()
        l0 = [C05.T_general_named("square", "0"), C05.G("triangle")]
        cgs = [ColorGlyph(ufo, "", "", "g0", 2, (0x41,), tuple(l0), None, Affine2D.identity(), None), ColorGlyph(ufo, "", "", "g1", 3, (0x42,), (), None, Affine2D.identity(), None)]
        WF._colr_ufo(0, cfg, ufo, tuple(cgs))
        pens = {}
        for n in ("g0", "g1"):
            pen = RecordingPen()
            ufo[n].draw(pen)
            pens[n] = pen.value
        return cgs, pens

    extra = [shims.Shim("nanoemoji.write_font", "_migrate_paths_to_ufo_glyphs", lambda g, cache: g, "names pre-assigned"),
             shims.Shim("nanoemoji.write_font", "uniq_sort_cpal_colors", lambda cols: [Color(0, 0, 0, 1.0), C05.SOLID.color], "palette is C15's subject")]
    with C05.bounds_shims(hash_const=True), shims.installed(extra):
        results = jc.explore(body, feas_timeout_ms=1500)
    for r in results:
        if not jc.no_exception(r, inp, replay_colr0_extents, "C03:v0:extents:raises"):
            continue
        cgs, pens = r.value
        jc.reach(r, "ok")
        ops = pens["g0"]
        pts = [p for _, a in ops for p in a]
        conj = [z3.BoolVal(not pens["g1"])]
        if len(pts) == 2:
            with core.post(r):
                leaves = [lf for layer in cgs[0].painted_layers for lf in ps.denote(layer)]
            box = (pts[0][0], pts[0][1], pts[1][0], pts[1][1])
            conj.append(C05.box_contains(box, leaves, ufo, 20))
        else:
            conj.append(z3.BoolVal(False))
        jc.prove(r, z3.And(*conj), "COLRv0: the base glyph's own extents cover all layers; a glyph that paints nothing stays empty", inp, replay_colr0_extents, key="C03:v0:extents", timeout_ms=60000)
    jc.expect_reached("ok")


def jobs(tier):
    js = [Job("v0_layers[third same colour, identity reuse]", job_v0_layers, third_same_colour=True, identity=True),
          Job("v0_layers[third same colour]", job_v0_layers, third_same_colour=True, identity=False),
          Job("v0_layers[third other colour]", job_v0_layers, third_same_colour=False, identity=False),
          # gradient-filled shapes ("for any source"): only the geometry is claimed. The reuse affine is the identity
          # here; with a symbolic affine the gradient's own apply_transform/check_overflows multiply the paths of
          # transformed() and the job does not finish in 10 min (measured; 5 min with an axis-aligned affine), so that product is left to C06's jobs.
          Job("v0_layers[gradient-filled shapes, identical third: linear]", job_v0_layers, third_same_colour=True, identity=True, fill="linear"),
          Job("v0_layers[gradient-filled shapes, identical third: radial]", job_v0_layers, third_same_colour=True, identity=True, fill="radial"),
          Job("colr0_layers[reused]", C06.job_colr0, which="colr0"),
          Job("glyf_components[reused]", C06.job_colr0, which="glyf"),
          Job("draw_glyph_extents", job_extents),
          Job("glyphs independent of build order", C06.job_independent),
          Job("colr_ufo[v0 extents]", job_colr0_extents)]
    from harness import C16

    js.append(Job("contract:transformed", C16.job_transformed))
    # colour and alpha of each layer come from the source through ColorGlyph.create, whatever the colour format
    from harness import C01_source

    for name in ("solids+opacity", "fill with its own alpha channel + shape opacity", "palette variable whose default has an alpha channel + shape opacity", "currentColor and palette variables"):
        js.append(Job(f"source[{name}|user identity]", C01_source.job_source, source=name, user="identity"))
    js.append(Job("source[solids+opacity|user mirror]", C01_source.job_source, source="solids+opacity", user="mirror"))
    return js


def main(tier):
    return run_property(
        "C03",
        jobs(tier),
        tier=tier,
        explanation="Bounded symbolic execution of the COLRv0/glyf emitters on migrated paint trees with a symbolic reuse affine: layer list, composite glyphs, components, base-glyph extents.",
        bounds={"shapes": "3 layers (third congruent to the first by a symbolic affine, or the identity), solid fills", "reuse affine": "linear [-4,4], translation [-4e4,4e4], |det| >= 0.01", "extents": "integer box corners in [-4e4,4e4]"},
        outside=["ufo2ft component flattening / CFF", "effect of the single-component inlining on the binary", "nested group order for non-solid sources (reported, not asserted)"],
        assumptions=["picosvg normalize/affine_between as contract stubs"],
        shims=["std + numeric shims", "fontTools arrayTools min/max non-forking"],
        stubs=["real ufoLib2.Font; SVG attribute bag"],
        budget_s=900 if tier == "quick" else 3000,
    )
