"""Harness framework: jobs -> worker pool -> verdicts, findings, replay files, evidence."""
from __future__ import annotations

import hashlib
import inspect
import json
import multiprocessing as mp
import os
import sys
import time
import traceback
from fractions import Fraction
from typing import Any, Callable, Dict, List, Optional

import z3

from . import core

VERIF = os.path.dirname(os.path.dirname(os.path.abspath(__file__)))
# tools/seed_matrix.sh runs several seeded trees at once; each run then writes evidence/replays to its own directory
OUT = os.environ.get("SYMX_OUT_DIR") or VERIF
EXIT_OK, EXIT_VIOLATION, EXIT_INCONCLUSIVE = 0, 1, 3


def jsonable(v):
    if isinstance(v, Fraction):
        if v.denominator == 1:
            return int(v)
        return float(v)
    if isinstance(v, (core.SymNum, core.SymBool)):
        return repr(v)
    if isinstance(v, dict):
        return {str(k): jsonable(x) for k, x in v.items()}
    if isinstance(v, (list, tuple, set, frozenset)):
        return [jsonable(x) for x in v]
    if isinstance(v, (int, float, str, bool)) or v is None:
        return v
    return repr(v)


def concrete(v):
    """Fraction -> nearest double / int (what real callers would pass)."""
    if isinstance(v, Fraction):
        return int(v) if v.denominator == 1 and abs(v) < 2**53 else float(v)
    if isinstance(v, (list, tuple)):
        return type(v)(concrete(x) for x in v)
    if isinstance(v, dict):
        return {k: concrete(x) for k, x in v.items()}
    return v


class Job:
    """One unit of work run in a worker process."""

    def __init__(self, name: str, fn: Callable[["JobCtx"], None], **params):
        self.name = name
        self.fn = fn
        self.params = params


class JobCtx:
    def __init__(self, prop_id: str, job: Job, tier: str, deadline: float):
        self.prop_id = prop_id
        self.job = job
        self.tier = tier
        self.deadline = deadline
        self.params = job.params
        self.paths = 0
        self.aborted = 0
        self.cut = 0
        self.cut_reasons: Dict[str, int] = {}
        self.branch_checks = 0
        self.pruned = 0
        self.unknown_feas = 0
        self.q = {"total": 0, "unsat": 0, "sat": 0, "unknown": 0}
        self.solver_s = 0.0
        self.violations: List[dict] = []
        self.inconclusive: List[str] = []
        self.reached: Dict[str, int] = {}
        self.reach_sat = 0
        self.samples: List[dict] = []
        self.functions: Dict[str, dict] = {}
        self.notes: List[str] = []
        self.obligations: Dict[str, Dict[str, int]] = {}
        self.concrete_validations = 0

    # ---- bookkeeping
    def encode(self, *fns):
        """Record the real functions this job executes (qualname + sha of current source)."""
        for f in fns:
            try:
                target = inspect.unwrap(f)
                if isinstance(target, (staticmethod, classmethod)):
                    target = target.__func__
                src = inspect.getsource(target)
                file = inspect.getsourcefile(target)
                qn = f"{target.__module__}.{target.__qualname__}"
            except Exception as e:  # builtins etc.
                src, file, qn = repr(f), "?", repr(f)
            self.functions[qn] = {
                "file": file,
                "sha256": hashlib.sha256(src.encode()).hexdigest()[:16],
            }

    def explore(self, body, **kw):
        kw.setdefault("deadline", self.deadline)
        results, st = core.explore(body, **kw)
        self.paths += st.paths
        self.aborted += st.aborted
        self.cut += st.cut
        for k, v in st.cut_reasons.items():
            self.cut_reasons[k] = self.cut_reasons.get(k, 0) + v
        self.branch_checks += st.branch_checks
        self.pruned += st.pruned
        self.unknown_feas += st.unknown_feas
        self.solver_s += st.solver_s
        if not st.complete:
            self.inconclusive.append(
                f"{self.job.name}: path exploration stopped early (max_paths/deadline) after {st.paths} paths"
            )
        return results

    def reach(self, r: core.PathResult, label: str, timeout_ms=10000) -> bool:
        """Vacuity guard: the path condition (incl. assumptions) must be satisfiable.
        Doubles as the 'assert False' twin: pc ∧ ¬False is sat."""
        if label in self.reached:
            self.reached[label] += 1
            return True
        v, _, dt = core.check(r.constraints(), None, timeout_ms)
        self.solver_s += dt
        if v == core.Verdict.SAT:
            self.reached[label] = 1
            self.reach_sat += 1
            return True
        if v == core.Verdict.UNKNOWN:
            self.notes.append(f"reach({label}) unknown on one path; will retry on another")
        return False

    def expect_reached(self, *labels):
        for lb in labels:
            if lb not in self.reached:
                self.inconclusive.append(
                    f"{self.job.name}: vacuity guard: outcome class '{lb}' was never reached with a satisfiable path condition"
                )

    def sample(self, **kw):
        if len(self.samples) < 3:
            self.samples.append(jsonable(kw))

    # ---- the deciding step
    def prove(
        self,
        r: core.PathResult,
        prop,
        label: str,
        inputs: Optional[Dict[str, Any]] = None,
        replay: Optional[Callable[[Dict[str, Any]], Optional[dict]]] = None,
        key: Optional[str] = None,
        timeout_ms: int = 30000,
        extra: Optional[List] = None,
        refine: Optional[Callable[[Dict[str, Any]], List]] = None,
        _depth: int = 0,
    ) -> str:
        """Decide pc ∧ ¬prop. prop: z3 BoolRef / SymBool / bool.

        replay(concrete_inputs) must call the REAL unshimmed code and return a dict
        describing the reproduced violation, or None if it does not reproduce.

        refine(concrete_inputs) -> extra constraints: when the model leans on an uninterpreted
        function (e.g. str.isalpha outside ASCII) and the witness does not reproduce, the ground truth
        for the values the solver picked is added and the query repeated (counterexample-guided, <= 12 rounds).
        """
        ob = self.obligations.setdefault(label, {"unsat": 0, "sat": 0, "unknown": 0})
        fkey0 = key or f"{self.prop_id}:{self.job.name}:{label}"
        if sum(1 for v in self.violations if v["key"] == fkey0) >= 3:
            # this finding is already established with reproduced witnesses; more paths add nothing
            ob.setdefault("skipped_after_violation", 0)
            ob["skipped_after_violation"] += 1
            return "skipped"
        if isinstance(prop, core.SymBool):
            prop = prop.t
        if isinstance(prop, bool):
            prop = z3.BoolVal(prop)
        cons = r.constraints() + list(extra or [])
        self.q["total"] += 1
        v, m, dt = core.check(cons, z3.Not(prop), timeout_ms)
        self.solver_s += dt
        self.q[v] += 1
        ob[v] += 1
        if v == core.Verdict.UNSAT:
            return v
        if v == core.Verdict.UNKNOWN:
            self.inconclusive.append(f"{self.job.name}: '{label}' solver returned unknown ({dt:.1f}s)")
            return v
        # sat: candidate counterexample -> replay on the real code
        conc = {}
        for name, sv in (inputs or {}).items():
            conc[name] = concrete(_eval_nested(m, sv))
        fkey = key or f"{self.prop_id}:{self.job.name}:{label}"
        detail = None
        if replay is not None:
            try:
                detail = replay(conc)
            except Exception as e:
                detail = None
                self.notes.append(f"replay of '{label}' raised {type(e).__name__}: {e}")
        if detail is None and refine is not None and _depth < 12:
            more = refine(conc)
            if more:
                self.q["refinements"] = self.q.get("refinements", 0) + 1
                return self.prove(r, prop, label, inputs, replay, key, timeout_ms, list(extra or []) + list(more), refine, _depth + 1)
        if detail is None:
            self.inconclusive.append(
                f"{self.job.name}: '{label}' sat but the witness did not reproduce on the real code "
                f"(encoding/stub wrong or float-vs-real gap) inputs={jsonable(conc)}"
            )
            return "sat-unreproduced"
        self.violations.append(
            {
                "property": self.prop_id,
                "key": fkey,
                "job": self.job.name,
                "label": label,
                "inputs": jsonable(conc),
                "detail": jsonable(detail),
                "replay_fn": getattr(replay, "__name__", None),
                "module": getattr(replay, "__module__", None),
            }
        )
        return v

    def no_exception(self, r, inputs, replay, key, label="no unexpected exception"):
        """An exception escaping the code under test on a feasible path is a candidate
        violation: take a model of the path condition, replay on the real code."""
        if r.exc is None:
            return True
        ob = self.obligations.setdefault(label, {"unsat": 0, "sat": 0, "unknown": 0})
        self.q["total"] += 1
        v, m, dt = core.check(r.constraints(), None, 20000)
        self.solver_s += dt
        if v != core.Verdict.SAT:
            # infeasible (unsat) exception path: nothing to report; unknown: inconclusive
            self.q["unsat" if v == core.Verdict.UNSAT else "unknown"] += 1
            ob["unsat" if v == core.Verdict.UNSAT else "unknown"] += 1
            if v == core.Verdict.UNKNOWN:
                self.inconclusive.append(f"{self.job.name}: exception path {type(r.exc).__name__} feasibility unknown")
            return False
        self.q["sat"] += 1
        ob["sat"] += 1
        conc = {name: concrete(_eval_nested(m, sv)) for name, sv in (inputs or {}).items()}
        detail = None
        try:
            detail = replay(conc)
        except Exception as e:
            self.notes.append(f"replay raised {type(e).__name__}: {e}")
        if detail is None:
            self.inconclusive.append(
                f"{self.job.name}: symbolic run raised {type(r.exc).__name__}: {r.exc} but the witness did not reproduce; inputs={jsonable(conc)}"
            )
            return False
        self.violations.append(
            {"property": self.prop_id, "key": key, "job": self.job.name, "label": label,
             "inputs": jsonable(conc), "detail": jsonable(detail),
             "replay_fn": getattr(replay, "__name__", None), "module": getattr(replay, "__module__", None)}
        )
        return False

    def violation(self, key: str, label: str, inputs, detail, replay=None):
        """Report a violation established concretely (after a solver witness)."""
        self.violations.append(
            {
                "replay_fn": getattr(replay, "__name__", None),
                "module": getattr(replay, "__module__", None),
                "property": self.prop_id,
                "key": key,
                "job": self.job.name,
                "label": label,
                "inputs": jsonable(inputs),
                "detail": jsonable(detail),
            }
        )

    def summary(self):
        return {
            "job": self.job.name,
            "paths": self.paths,
            "aborted": self.aborted,
            "cut": self.cut,
            "cut_reasons": self.cut_reasons,
            "branch_checks": self.branch_checks,
            "pruned": self.pruned,
            "unknown_feas": self.unknown_feas,
            "q": self.q,
            "solver_s": round(self.solver_s, 3),
            "violations": self.violations,
            "inconclusive": self.inconclusive,
            "reached": self.reached,
            "reach_sat": self.reach_sat,
            "samples": self.samples,
            "functions": self.functions,
            "notes": self.notes[:20],
            "obligations": self.obligations,
            "concrete_validations": self.concrete_validations,
        }


def _eval_nested(m, v):
    if isinstance(v, (core.SymNum, core.SymBool)):
        return core.model_value(m, v)
    if isinstance(v, (list, tuple)):
        return [_eval_nested(m, x) for x in v]
    if isinstance(v, dict):
        return {k: _eval_nested(m, x) for k, x in v.items()}
    return v


_WORK: Dict[str, Any] = {}


def _run_job(i):
    prop_id, jobs, tier, deadline = _WORK["args"]
    job = jobs[i]
    jc = JobCtx(prop_id, job, tier, deadline)
    t = time.time()
    try:
        job.fn(jc)
    except core.HarnessError as e:
        jc.inconclusive.append(f"{job.name}: harness error: {e}")
    except BaseException as e:  # noqa
        jc.inconclusive.append(
            f"{job.name}: harness crashed: {type(e).__name__}: {e}\n{traceback.format_exc(limit=8)}"
        )
    s = jc.summary()
    s["wall_s"] = round(time.time() - t, 2)
    return s


def load_findings():
    p = os.path.join(VERIF, "known_findings.json")
    if not os.path.exists(p):
        return []
    with open(p) as f:
        return json.load(f).get("findings", [])


def run_property(
    prop_id: str,
    jobs: List[Job],
    *,
    tier: str,
    explanation: str,
    bounds: Dict[str, Any],
    outside: List[str],
    assumptions: List[str],
    shims: List[str],
    stubs: List[str],
    budget_s: float,
    procs: int = 16,
) -> int:
    t0 = time.time()
    seed = int(os.environ.get("VERIF_SEED", "0") or 0)
    deadline = t0 + budget_s
    # VERIF_SEED only permutes the work queue
    order = list(range(len(jobs)))
    if seed:
        import random

        random.Random(seed).shuffle(order)
    _WORK["args"] = (prop_id, jobs, tier, deadline)
    ctxm = mp.get_context("fork")
    with ctxm.Pool(min(procs, max(1, len(jobs)))) as pool:
        summaries = pool.map(_run_job, order, chunksize=1)
    summaries.sort(key=lambda s: s["job"])

    known = [f for f in load_findings() if f.get("property") == prop_id and f.get("status") == "known"]
    known_keys = {f["key"]: f for f in known}

    tot = {"total": 0, "unsat": 0, "sat": 0, "unknown": 0}
    paths = aborted = cut = bchecks = pruned = unk_feas = reach_sat = conc_val = 0
    solver_s = 0.0
    violations, inconclusive, samples = [], [], []
    functions, reached, obligations, cut_reasons = {}, {}, {}, {}
    per_job = []
    for s in summaries:
        for k in tot:
            tot[k] += s["q"][k]
        paths += s["paths"]
        aborted += s["aborted"]
        cut += s["cut"]
        bchecks += s["branch_checks"]
        pruned += s["pruned"]
        unk_feas += s["unknown_feas"]
        reach_sat += s["reach_sat"]
        conc_val += s["concrete_validations"]
        solver_s += s["solver_s"]
        violations += s["violations"]
        inconclusive += s["inconclusive"]
        for x in s["samples"]:
            if len(samples) < 12:
                samples.append({"job": s["job"], **x})
        functions.update(s["functions"])
        for k, v in s["reached"].items():
            reached[f"{s['job']}:{k}"] = v
        for k, v in s["cut_reasons"].items():
            cut_reasons[k] = cut_reasons.get(k, 0) + v
        for k, v in s["obligations"].items():
            o = obligations.setdefault(k, {"unsat": 0, "sat": 0, "unknown": 0})
            for kk in o:
                o[kk] += v[kk]
        per_job.append(
            {
                "job": s["job"],
                "paths": s["paths"],
                "queries": s["q"],
                "wall_s": s["wall_s"],
                "solver_s": s["solver_s"],
                "notes": s["notes"][:5],
            }
        )

    # classify violations
    new_viol, suppressed = [], []
    seen_known = set()
    for v in violations:
        if v["key"] in known_keys:
            suppressed.append(v)
            if v["key"] not in seen_known:
                seen_known.add(v["key"])
                print(f"KNOWN-FINDING: property={prop_id} {v['key']} {known_keys[v['key']].get('what','')}")
        else:
            new_viol.append(v)

    replay_paths = []
    seen_keys = set()
    for v in new_viol:
        if v["key"] in seen_keys:
            continue
        seen_keys.add(v["key"])
        h = hashlib.sha256(json.dumps(v, sort_keys=True).encode()).hexdigest()[:12]
        d = os.path.join(OUT, "replays", prop_id)
        os.makedirs(d, exist_ok=True)
        p = os.path.join(d, f"{h}.json")
        with open(p, "w") as f:
            json.dump(v, f, indent=1, sort_keys=True)
        replay_paths.append(p)
        print(f"VIOLATION property={prop_id} replay={p}")
        print(f"  key={v['key']} inputs={json.dumps(v['inputs'])[:300]} detail={json.dumps(v['detail'])[:400]}")

    wall = time.time() - t0
    status = "ok"
    if new_viol:
        status = "violation"
    elif inconclusive:
        status = "inconclusive"

    nontrivial = sum(1 for s in summaries if s["paths"] > 0 and s["q"]["total"] > 0)
    evidence = {
        "property_id": prop_id,
        "tier": tier,
        "seed": seed,
        "level": "other",
        "coverage": {
            "explanation": explanation
            + " Deciding step: z3 verdict on (path condition ∧ assumptions ∧ ¬property) for every feasible path of the real functions; unsat = holds for all inputs in bounds on that path; sat = replayed on the unshimmed code before being reported; unknown = inconclusive (exit 3).",
            "status": status,
            "states": max(paths, 0),
            "transitions": bchecks,
            "traces_validated_against_impl": conc_val + len(violations),
            "evaluations": max(tot["total"], 1),
            "distinct_nontrivial": max(paths, 0),
            "rule": "one case = one feasible path (distinct decision vector) of the real function under symbolic inputs; non-trivial = its path condition is satisfiable and at least one property query was decided on it",
            "exhaustive": status == "ok" and not inconclusive,
            "functions_encoded": functions,
            "bounds": bounds,
            "outside_bounds": outside,
            "shims": shims,
            "stubs": stubs,
            "queries": tot,
            "obligations_by_label": obligations,
            "solver_s": round(solver_s, 2),
            "paths": paths,
            "paths_aborted_infeasible": aborted,
            "paths_cut_outside_claim": cut,
            "cut_reasons": cut_reasons,
            "pruned_branches": pruned,
            "feasibility_unknown_treated_feasible": unk_feas,
            "vacuity": {"reach_sat": reach_sat, "classes_reached": reached},
            "concrete_validations_of_shims_and_oracle": conc_val,
            "jobs": per_job,
            "samples": samples or [{"note": "no samples"}],
            "findings_suppressed": [
                {"key": v["key"], "inputs": v["inputs"]} for v in suppressed[:10]
            ],
            "inconclusive": inconclusive[:20],
            "solver": f"z3 {z3.get_version_string()}",
        },
        "assumptions": assumptions,
        "wall_s": round(wall, 2),
        "violations": len(new_viol),
    }
    os.makedirs(os.path.join(OUT, "evidence"), exist_ok=True)
    with open(os.path.join(OUT, "evidence", f"{prop_id}.json"), "w") as f:
        json.dump(evidence, f, indent=1)

    print(
        f"[{prop_id}/{tier}] jobs={len(jobs)} paths={paths} queries={tot} "
        f"solver={solver_s:.1f}s wall={wall:.1f}s status={status}"
    )
    if new_viol:
        return EXIT_VIOLATION
    if inconclusive:
        for x in inconclusive[:20]:
            print("INCONCLUSIVE:", x)
        return EXIT_INCONCLUSIVE
    return EXIT_OK
