"""String kernels: SymStr (list of character codes, concrete length per path) and an
instrumenting loader that rewrites the *current* source of a repo module so that
`"%x" % n`, `"_".join(...)`, chr(), str-method calls etc. reach SymStr.

The rewrite is mechanical and generic (no per-function knowledge):
    a % b            ->  __symx__.mod(a, b)
    f(args)          ->  __symx__.call(f, args)
    obj.m(args)      ->  __symx__.method(obj, "m", args)
and falls through to the native operation whenever no operand is symbolic.
"""
from __future__ import annotations

import ast
import importlib
import itertools
import sys
import types
from typing import List, Optional, Sequence, Union

import z3

from . import core
from .core import SymBool, SymNum

UF_ISALPHA_NONASCII = z3.Function("isalpha_nonascii", z3.IntSort(), z3.BoolSort())

Char = Union[int, SymNum]


def _ct(c: Char):
    return c.t if isinstance(c, SymNum) else z3.IntVal(c)


class SymStr:
    """String with concrete length whose characters may be symbolic code points."""

    __slots__ = ("chars", "source")

    def __init__(self, chars: Sequence[Char], source=None):
        self.chars = list(chars)
        self.source = source  # for hashed names: the SymStr that was hashed

    # -- construction helpers
    @staticmethod
    def of(s) -> "SymStr":
        if isinstance(s, SymStr):
            return s
        if isinstance(s, str):
            return SymStr([ord(ch) for ch in s])
        if isinstance(s, SymNum):
            # str(int): only concrete ints supported
            raise core.HarnessError("str() of a symbolic number inside a string kernel")
        return SymStr([ord(ch) for ch in str(s)])

    def is_concrete(self):
        return all(not isinstance(c, SymNum) for c in self.chars)

    def concrete(self) -> str:
        return "".join(chr(c) for c in self.chars)

    def __len__(self):
        return len(self.chars)

    def __iter__(self):
        return (SymStr([c]) for c in self.chars)

    def __getitem__(self, i):
        if isinstance(i, slice):
            return SymStr(self.chars[i])
        return SymStr([self.chars[i]])

    def __add__(self, o):
        if isinstance(o, (str, SymStr)):
            return SymStr(self.chars + SymStr.of(o).chars)
        return NotImplemented

    def __radd__(self, o):
        if isinstance(o, (str, SymStr)):
            return SymStr(SymStr.of(o).chars + self.chars)
        return NotImplemented

    def eq_term(self, o) -> z3.BoolRef:
        o = SymStr.of(o)
        if len(o) != len(self):
            return z3.BoolVal(False)
        conj = []
        for a, b in zip(self.chars, o.chars):
            if not isinstance(a, SymNum) and not isinstance(b, SymNum):
                if a != b:
                    return z3.BoolVal(False)
                continue
            conj.append(_ct(a) == _ct(b))
        return z3.And(*conj) if conj else z3.BoolVal(True)

    def __eq__(self, o):
        if not isinstance(o, (str, SymStr)):
            return False
        t = z3.simplify(self.eq_term(o))
        if z3.is_true(t):
            return True
        if z3.is_false(t):
            return False
        return SymBool(t)

    def __ne__(self, o):
        r = self.__eq__(o)
        return (not r) if isinstance(r, bool) else ~r

    def __hash__(self):
        # constant: a symbolic name may equal a concretely-spelled one, so all SymStr must
        # land in the same bucket and let __eq__ (symbolic) decide
        return 0

    def __lt__(self, o):
        o = SymStr.of(o)
        for a, b in zip(self.chars, o.chars):
            if not isinstance(a, SymNum) and not isinstance(b, SymNum):
                if a != b:
                    return a < b
                continue
            ta, tb = _ct(a), _ct(b)
            if bool(SymBool(ta == tb)):
                continue
            return bool(SymBool(ta < tb))
        return len(self) < len(o)

    def __le__(self, o):
        return not (SymStr.of(o) < self)

    def __gt__(self, o):
        return SymStr.of(o) < self

    def __ge__(self, o):
        return not (self < o)

    def __repr__(self):
        out = []
        for c in self.chars:
            out.append(chr(c) if not isinstance(c, SymNum) else "⟨" + str(z3.simplify(c.t))[:24] + "⟩")
        return "SymStr(" + "".join(out) + ")"

    __str__ = __repr__

    # -- str methods used by the kernels
    def isalpha(self):
        if not self.chars:
            return False
        terms = []
        for c in self.chars:
            if not isinstance(c, SymNum):
                if not chr(c).isalpha():
                    return False
                continue
            t = c.t
            ascii_alpha = z3.Or(z3.And(t >= 65, t <= 90), z3.And(t >= 97, t <= 122))
            terms.append(z3.If(t < 128, ascii_alpha, UF_ISALPHA_NONASCII(t)))
        if not terms:
            return True
        return SymBool(z3.And(*terms))

    def isascii(self):
        terms = []
        for c in self.chars:
            if not isinstance(c, SymNum):
                if c >= 128:
                    return False
                continue
            terms.append(c.t < 128)
        if not terms:
            return True
        return SymBool(z3.And(*terms))

    def startswith(self, p):
        p = SymStr.of(p)
        if len(p) > len(self):
            return False
        return SymStr(self.chars[: len(p)]) == p

    def __contains__(self, needle):
        """substring test (concrete-length needle); forks through SymBool where characters are symbolic"""
        n = SymStr.of(needle)
        if len(n) == 0:
            return True
        for i in range(len(self) - len(n) + 1):
            r = SymStr(self.chars[i : i + len(n)]) == n
            if r is True or (r is not False and bool(r)):
                return True
        return False

    # str.isspace() / str.splitlines() character sets (CPython unicodeobject: _PyUnicode_IsWhitespace / IsLinebreak)
    _SPACE = [(9, 13), (28, 32), (0x85, 0x85), (0xA0, 0xA0), (0x1680, 0x1680), (0x2000, 0x200A), (0x2028, 0x2029), (0x202F, 0x202F), (0x205F, 0x205F), (0x3000, 0x3000)]
    _LINEBREAK = [(10, 13), (28, 30), (0x85, 0x85), (0x2028, 0x2029)]

    @staticmethod
    def _in_ranges(c, ranges) -> bool:
        if not isinstance(c, SymNum):
            return any(lo <= c <= hi for lo, hi in ranges)
        return bool(SymBool(z3.Or(*[z3.And(c.t >= lo, c.t <= hi) for lo, hi in ranges])))

    def strip(self, chars=None):
        if chars is not None:
            return self.lstrip(chars).rstrip(chars)
        a, b = 0, len(self.chars)
        while a < b and self._in_ranges(self.chars[a], self._SPACE):
            a += 1
        while b > a and self._in_ranges(self.chars[b - 1], self._SPACE):
            b -= 1
        return SymStr(self.chars[a:b])

    def _strip_test(self, chars):
        if chars is None:
            return lambda c: self._in_ranges(c, self._SPACE)
        codes = [ord(ch) for ch in (chars.concrete() if isinstance(chars, SymStr) else chars)]
        return lambda c: self._in_ranges(c, [(k, k) for k in codes])

    def lstrip(self, chars=None):
        t, a = self._strip_test(chars), 0
        while a < len(self.chars) and t(self.chars[a]):
            a += 1
        return SymStr(self.chars[a:])

    def rstrip(self, chars=None):
        t, b = self._strip_test(chars), len(self.chars)
        while b > 0 and t(self.chars[b - 1]):
            b -= 1
        return SymStr(self.chars[:b])

    def splitlines(self, keepends=False):
        out, cur, i = [], [], 0
        cs = self.chars
        while i < len(cs):
            c = cs[i]
            if self._in_ranges(c, self._LINEBREAK):
                end = [c]
                if i + 1 < len(cs) and (SymStr([c]) == "\r") is True and (SymStr([cs[i + 1]]) == "\n") is True:
                    end.append(cs[i + 1])
                    i += 1
                elif i + 1 < len(cs) and bool(SymStr([c]) == "\r") and bool(SymStr([cs[i + 1]]) == "\n"):
                    end.append(cs[i + 1])
                    i += 1
                out.append(SymStr(cur + (end if keepends else [])))
                cur = []
            else:
                cur.append(c)
            i += 1
        if cur:
            out.append(SymStr(cur))
        return out

    def encode(self, *a, **k):
        return SymBytes(self)

    def join(self, it):
        parts = [SymStr.of(x) for x in it]
        out: List[Char] = []
        for i, p in enumerate(parts):
            if i:
                out += self.chars
            out += p.chars
        return SymStr(out)

    def split(self, *a, **k):
        if self.is_concrete():
            return self.concrete().split(*a, **k)
        raise core.HarnessError("split on symbolic string")


class SymBytes:
    def __init__(self, s: SymStr):
        self.s = s


class SymDigest:
    def __init__(self, s: SymStr):
        self.s = s


class SymB32:
    def __init__(self, s: SymStr):
        self.s = s

    def decode(self, *a, **k):
        return hashed_name(self.s)


_B32_LEN = 32  # base32 of a 20-byte sha1 digest


def hashed_name(source: SymStr) -> SymStr:
    """sha1+base32 of `source` as 32 fresh characters over [A-Z2-7]. The pair
    (sha1, b32encode) is treated as an injective function (collision-freeness of sha1
    is assumed): for every two hashed names on the path, outputs are equal iff sources
    are equal."""
    c = core.ctx()
    reg = c.trig.setdefault("hashed", [])
    for src, out in reg:
        if len(src) == len(source) and z3.is_true(z3.simplify(src.eq_term(source))):
            return SymStr(out.chars, source=source)
    chars = []
    for i in range(_B32_LEN):
        v = core.fresh_int("h32")
        c.add(z3.Or(z3.And(v.t >= 65, v.t <= 90), z3.And(v.t >= 50, v.t <= 55)), definitional=True)
        chars.append(v)
    out = SymStr(chars, source=source)
    for src, o in reg:
        c.add(src.eq_term(source) == o.eq_term(out), definitional=True)
    reg.append((source, out))
    return out


def parse_int(s: "SymStr", base: int = 10):
    """int(s, base) for a SymStr of digits (base 10 or 16): ValueError paths fork, the value is linear in the digits"""
    if base not in (10, 16):
        raise core.HarnessError(f"int(str, {base}) on a symbolic string")
    if s.is_concrete():
        return int(s.concrete(), base)
    if not s.chars:
        raise ValueError("invalid literal for int() with base %d: ''" % base)
    total = None
    for c in s.chars:
        if not isinstance(c, SymNum):
            v = int(chr(c), base)
        else:
            t = c.t
            ok = z3.And(t >= 48, t <= 57)
            if base == 16:
                ok = z3.Or(ok, z3.And(t >= 65, t <= 70), z3.And(t >= 97, t <= 102))
            if not bool(SymBool(ok)):
                raise ValueError("invalid literal for int() with base %d" % base)
            v = SymNum(z3.If(t <= 57, t - 48, z3.If(t <= 70, t - 55, t - 87)))
        total = v if total is None else total * base + v
    return total


def fmt_hex(n, width=0) -> SymStr:
    """'%x' % n / '%04x' % n for a symbolic non-negative int: forks on the digit count."""
    if not isinstance(n, SymNum):
        return SymStr.of(("%0" + str(width) + "x") % n if width else "%x" % n)
    alts = []
    D = 6  # code points < 0x110000
    t = n.t
    for d in range(1, D + 1):
        lo = 0 if d == 1 else 16 ** (d - 1)
        alts.append(z3.And(t >= lo, t < 16**d))
    k = core.ctx().decide(alts)
    d = k + 1
    digits = []
    total = 0
    for i in range(d):
        h = core.fresh_int("hx", 0, 15)
        digits.append(h)
        total = total + h * (16 ** (d - 1 - i))
    core.ctx().add(core.as_term(total) == z3.ToReal(t), definitional=True)
    chars: List[Char] = [0x30] * max(0, width - d)
    for h in digits:
        chars.append(SymNum(z3.If(h.t < 10, 48 + h.t, 87 + h.t)))
    return SymStr(chars)


def fmt_mod(template: str, args) -> SymStr:
    """Concrete template % args (subset: %s %x %0Nx %d with concrete ints)."""
    if not isinstance(args, tuple):
        args = (args,)
    out = SymStr([])
    i = 0
    ai = 0
    while i < len(template):
        ch = template[i]
        if ch != "%":
            out = out + ch
            i += 1
            continue
        j = i + 1
        if template[j] == "%":
            out = out + "%"
            i = j + 1
            continue
        width = ""
        while template[j].isdigit():
            width += template[j]
            j += 1
        conv = template[j]
        a = args[ai]
        ai += 1
        if conv == "s":
            out = out + SymStr.of(a)
        elif conv == "x":
            w = int(width) if width.startswith("0") or width else 0
            if width and not width.startswith("0"):
                raise core.HarnessError("space-padded %x not modelled")
            out = out + fmt_hex(a, int(width) if width else 0)
        elif conv == "d" and not isinstance(a, SymNum):
            out = out + (("%" + width + "d") % a)
        else:
            raise core.HarnessError(f"format conversion %{width}{conv} not modelled")
        i = j + 1
    return out


def _any_sym(xs):
    for x in xs:
        if isinstance(x, (SymStr, SymNum, SymBytes, SymDigest, SymB32)):
            return True
        if isinstance(x, (tuple, list)) and _any_sym(x):
            return True
    return False


class Ops:
    """The helper object injected into instrumented modules as __symx__."""

    def __init__(self):
        self.hash_objs = {}

    def mod(self, a, b):
        if isinstance(a, str) and _any_sym(b if isinstance(b, tuple) else (b,)):
            return fmt_mod(a, b)
        return a % b

    def call(self, f, *a, **k):
        if f is str and len(a) == 1 and isinstance(getattr(a[0], "symstr", None), SymStr):
            return a[0].symstr  # a stub object (e.g. a path) that carries a symbolic string
        if _any_sym(a):
            if f is chr:
                return SymStr([a[0]])
            if f is len:
                return len(a[0])
            if f is str:
                return SymStr.of(a[0])
            if f is int and isinstance(a[0], SymStr):
                return parse_int(a[0], *(a[1:] or (k.get("base", 10),)))
            if f is ord and isinstance(a[0], SymStr):
                c = a[0].chars[0]
                return c
            if isinstance(f, type(str.isascii)) and getattr(f, "__objclass__", None) is str and isinstance(a[0], SymStr):
                return getattr(a[0], f.__name__)(*a[1:], **k)
            name = getattr(f, "__name__", "")
            mod = getattr(f, "__module__", "") or ""
            if name == "b32encode" and isinstance(a[0], SymDigest):
                return SymB32(a[0].s)
        return f(*a, **k)

    def method(self, obj, name, *a, **k):
        if isinstance(obj, str) and name == "join":
            items = list(a[0])
            if _any_sym(items):
                return SymStr.of(obj).join(items)
            return obj.join(items)
        if isinstance(obj, (SymStr, SymB32)):
            return getattr(obj, name)(*a, **k)
        if a and isinstance(a[0], SymBytes) and name == "update":
            self.hash_objs[id(obj)] = (obj, a[0].s)
            return None
        if name == "b32encode" and a and isinstance(a[0], SymDigest):
            return SymB32(a[0].s)
        if name == "digest" and id(obj) in self.hash_objs and self.hash_objs[id(obj)][0] is obj:
            return SymDigest(self.hash_objs[id(obj)][1])
        return getattr(obj, name)(*a, **k)


class _Rewriter(ast.NodeTransformer):
    def visit_BinOp(self, node):
        self.generic_visit(node)
        if isinstance(node.op, ast.Mod):
            return ast.copy_location(
                ast.Call(func=ast.Attribute(value=ast.Name(id="__symx__", ctx=ast.Load()), attr="mod", ctx=ast.Load()), args=[node.left, node.right], keywords=[]),
                node,
            )
        return node

    def visit_Call(self, node):
        self.generic_visit(node)
        if any(isinstance(a, ast.Starred) for a in node.args) or any(k.arg is None for k in node.keywords):
            return node
        if isinstance(node.func, ast.Attribute):
            new = ast.Call(
                func=ast.Attribute(value=ast.Name(id="__symx__", ctx=ast.Load()), attr="method", ctx=ast.Load()),
                args=[node.func.value, ast.Constant(value=node.func.attr)] + node.args,
                keywords=node.keywords,
            )
        else:
            if isinstance(node.func, ast.Name) and node.func.id in ("super", "locals", "globals", "vars"):
                return node
            new = ast.Call(
                func=ast.Attribute(value=ast.Name(id="__symx__", ctx=ast.Load()), attr="call", ctx=ast.Load()),
                args=[node.func] + node.args,
                keywords=node.keywords,
            )
        return ast.copy_location(new, node)


_counter = itertools.count()


def load_instrumented(module_name: str, rebind: Optional[dict] = None):
    """Parse the current source file of `module_name`, rewrite, compile under a private
    name and return the new module object. `rebind` overrides globals after execution
    (e.g. point `glyph_name` at the instrumented glyph module)."""
    orig = importlib.import_module(module_name)
    path = orig.__file__
    with open(path) as f:
        src = f.read()
    tree = ast.parse(src, filename=path)
    tree = _Rewriter().visit(tree)
    ast.fix_missing_locations(tree)
    code = compile(tree, path, "exec")
    mod = types.ModuleType(f"_symx_instrumented_{next(_counter)}_{module_name.replace('.', '_')}")
    mod.__file__ = path
    mod.__package__ = orig.__package__
    mod.__dict__["__symx__"] = Ops()
    sys.modules[mod.__name__] = mod  # dataclasses look their module up by name
    exec(code, mod.__dict__)
    for k, v in (rebind or {}).items():
        setattr(mod, k, v)
    mod.__symx_source_sha__ = __import__("hashlib").sha256(src.encode()).hexdigest()[:16]
    return mod
