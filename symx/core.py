"""symx core: proxy-based symbolic execution of real Python functions, decided by z3.

The real function objects from /repo/src are *called* with SymNum/SymBool proxies.
Every `bool(SymBool)` is a fork point: the solver decides which sides are feasible
under the current path condition; one side is taken, the other queued as a decision
prefix and the function re-executed from scratch for it (depth-first, deterministic).

Number model: Python float -> exact real, int -> mathematical integer (see DESIGN 1.1).
"""
from __future__ import annotations

import itertools
import math
import re
import time
from fractions import Fraction
from typing import Any, Callable, List, Optional, Sequence

import z3


# --------------------------------------------------------------------------- control


class PathAbort(BaseException):
    """Current path is infeasible / deliberately ended. BaseException so that code
    under test which catches Exception cannot swallow it."""


class PathCut(BaseException):
    """Path reached code outside the claim (e.g. hashlib); counted and reported."""

    def __init__(self, reason: str):
        super().__init__(reason)
        self.reason = reason


class HarnessError(Exception):
    """The harness/engine cannot proceed soundly (refuse rather than guess)."""


class Ctx:
    """State of one path execution."""

    def __init__(self, prefix: Sequence[int], feas_timeout_ms: int):
        self.prefix = list(prefix)
        self.pos = 0
        self.decisions: List[int] = []  # each decision: index chosen
        self.arity: List[int] = []  # how many alternatives at that decision
        self.pending: List[List[int]] = []  # prefixes to explore later
        self.pc: List[z3.BoolRef] = []  # path condition conjuncts
        self.side: List[z3.BoolRef] = []  # definitional side constraints (fresh vars)
        self.solver = z3.Solver()
        self.solver.set("timeout", feas_timeout_ms)
        self.n_checks = 0
        self.n_pruned = 0
        self.n_unknown_feas = 0
        self.fresh_counter = itertools.count()
        self.tokens: dict = {}
        self.round_mode = "exact"  # exact | identity | delta
        self.notes: List[str] = []
        self.trig: dict = {}
        self.solver_s = 0.0

    # -- solver helpers
    def add(self, cond: z3.BoolRef, definitional: bool = False):
        (self.side if definitional else self.pc).append(cond)
        self.solver.add(cond)

    def feasible(self, cond: z3.BoolRef) -> bool:
        t = time.time()
        self.n_checks += 1
        r = self.solver.check(cond)
        self.solver_s += time.time() - t
        if r == z3.unknown:
            self.n_unknown_feas += 1
            return True  # sound: only adds paths
        return r == z3.sat

    def decide(self, alternatives: Sequence[z3.BoolRef]) -> int:
        """Pick one of the mutually exclusive, jointly exhaustive alternatives."""
        n = len(alternatives)
        if self.pos < len(self.prefix):
            k = self.prefix[self.pos]
            self.pos += 1
            self.decisions.append(k)
            self.arity.append(n)
            self.add(alternatives[k])
            return k
        feas = [i for i in range(n) if self.feasible(alternatives[i])]
        self.n_pruned += n - len(feas)
        if not feas:
            raise PathAbort()
        k = feas[0]
        for other in feas[1:]:
            self.pending.append(self.decisions + [other])
        self.pos += 1
        self.decisions.append(k)
        self.arity.append(n)
        self.add(alternatives[k])
        return k

    def fresh_name(self, hint: str) -> str:
        return f"{hint}!{next(self.fresh_counter)}"


_ctx: Optional[Ctx] = None


def ctx() -> Ctx:
    if _ctx is None:
        raise HarnessError("symbolic value used outside symx.explore")
    return _ctx


def active() -> bool:
    return _ctx is not None


class PathResult:
    __slots__ = (
        "decisions",
        "pc",
        "side",
        "value",
        "exc",
        "cut",
        "notes",
        "tokens",
        "stats",
        "trig",
        "fresh_base",
    )

    def __init__(self):
        self.decisions = None
        self.pc = None
        self.side = None
        self.value = None
        self.exc = None
        self.cut = None
        self.notes = None
        self.tokens = None
        self.stats = None
        self.trig = None
        self.fresh_base = 0

    def constraints(self):
        return list(self.pc) + list(self.side)


class ExploreStats:
    def __init__(self):
        self.paths = 0
        self.aborted = 0
        self.cut = 0
        self.branch_checks = 0
        self.pruned = 0
        self.unknown_feas = 0
        self.solver_s = 0.0
        self.complete = True
        self.cut_reasons: dict = {}


def explore(
    fn: Callable[[], Any],
    *,
    max_paths: int = 20000,
    deadline: Optional[float] = None,
    feas_timeout_ms: int = 2000,
    catch: tuple = (Exception,),
    round_mode: str = "exact",
):
    """Run fn() once per feasible path. Returns (list[PathResult], ExploreStats).

    Exceptions of the types in `catch` raised by the code under test are recorded in
    PathResult.exc (they are outcomes, e.g. ValueError on a palette conflict).
    """
    global _ctx
    stats = ExploreStats()
    results: List[PathResult] = []
    stack: List[List[int]] = [[]]
    while stack:
        if stats.paths + stats.aborted >= max_paths or (
            deadline is not None and time.time() > deadline
        ):
            stats.complete = False
            break
        prefix = stack.pop()
        c = Ctx(prefix, feas_timeout_ms)
        c.round_mode = round_mode
        _ctx = c
        res = PathResult()
        aborted = False
        try:
            try:
                res.value = fn()
            except PathAbort:
                aborted = True
            except PathCut as e:
                res.cut = e.reason
            except HarnessError:
                raise
            except catch as e:  # outcome of the code under test
                res.exc = e
        finally:
            _ctx = None
        # explore later alternatives depth-first: push in reverse so first pending is next
        for p in reversed(c.pending):
            stack.append(p)
        stats.branch_checks += c.n_checks
        stats.pruned += c.n_pruned
        stats.unknown_feas += c.n_unknown_feas
        stats.solver_s += c.solver_s
        if aborted:
            stats.aborted += 1
            continue
        res.decisions = list(c.decisions)
        res.pc = list(c.pc)
        res.side = list(c.side)
        res.notes = list(c.notes)
        res.tokens = dict(c.tokens)
        res.trig = c.trig
        res.fresh_base = next(c.fresh_counter)
        if res.cut is not None:
            stats.cut += 1
            stats.cut_reasons[res.cut] = stats.cut_reasons.get(res.cut, 0) + 1
        stats.paths += 1
        results.append(res)
    return results, stats


class _PostCtx(Ctx):
    """Context for building oracle terms after a path finished: fresh variables and
    definitional axioms (trig, sqrt) are appended to the path's side constraints;
    forking is not allowed."""

    def __init__(self, r: "PathResult"):
        self.prefix = []
        self.pos = 0
        self.decisions = []
        self.arity = []
        self.pending = []
        self.pc = r.pc
        self.side = r.side
        self.solver = None
        self.n_checks = self.n_pruned = self.n_unknown_feas = 0
        self.fresh_counter = itertools.count(r.fresh_base + 100000)
        self.tokens = r.tokens
        self.round_mode = "exact"
        self.notes = []
        self.trig = r.trig if r.trig is not None else {}
        self.solver_s = 0.0
        self._r = r

    def add(self, cond, definitional=False):
        if not definitional:
            raise HarnessError("only definitional constraints may be added after a path ended")
        self.side.append(cond)

    def feasible(self, cond):
        raise HarnessError("oracle tried to fork after the path ended; build this term inside the body")

    def decide(self, alternatives):
        raise HarnessError("oracle tried to fork after the path ended; build this term inside the body")


class post:
    """with core.post(r): ... build oracle terms for finished path r."""

    def __init__(self, r):
        self.r = r

    def __enter__(self):
        global _ctx
        self.saved = _ctx
        _ctx = _PostCtx(self.r)
        return _ctx

    def __exit__(self, *a):
        global _ctx
        self.r.fresh_base = next(_ctx.fresh_counter)
        _ctx = self.saved
        return False


# --------------------------------------------------------------------------- terms


def _is_num(v) -> bool:
    return isinstance(v, (int, float, Fraction)) and not isinstance(v, bool)


def to_z3(v, sort_hint=None):
    """Convert python number / proxy to a z3 arithmetic term."""
    if isinstance(v, SymNum):
        return v.t
    if isinstance(v, bool):
        return z3.IntVal(int(v))
    if isinstance(v, int):
        return z3.IntVal(v)
    if isinstance(v, float):
        if math.isnan(v) or math.isinf(v):
            raise HarnessError("NaN/inf reached the solver (outside the number model)")
        if v.is_integer() and abs(v) < 2**62:
            return z3.RealVal(int(v))
        return z3.RealVal(Fraction(v))
    if isinstance(v, Fraction):
        return z3.RealVal(v)
    raise TypeError(f"cannot convert {type(v).__name__} to z3")


def _real(t):
    return z3.ToReal(t) if t.sort() == z3.IntSort() else t


def _both(a, b):
    """Coerce two terms to a common sort."""
    if a.sort() == b.sort():
        return a, b
    return _real(a), _real(b)


def _simp(t):
    return z3.simplify(t)


class SymBool:
    __slots__ = ("t",)

    def __init__(self, t):
        self.t = t

    def __bool__(self):
        t = _simp(self.t)
        if z3.is_true(t):
            return True
        if z3.is_false(t):
            return False
        c = ctx()
        k = c.decide([t, z3.Not(t)])
        return k == 0

    def __and__(self, o):
        return SymBool(z3.And(self.t, _b(o)))

    __rand__ = __and__

    def __or__(self, o):
        return SymBool(z3.Or(self.t, _b(o)))

    __ror__ = __or__

    def __invert__(self):
        return SymBool(z3.Not(self.t))

    def __eq__(self, o):
        if isinstance(o, (SymBool, bool)):
            return SymBool(self.t == _b(o))
        if _is_num(o) or isinstance(o, SymNum):
            return SymNum(z3.If(self.t, 1, 0)) == o
        return NotImplemented

    def __ne__(self, o):
        r = self.__eq__(o)
        if r is NotImplemented:
            return r
        return ~r

    def __hash__(self):
        return 1 if bool(self) else 0

    def __repr__(self):
        return f"SymBool({self.t})"

    def __int__(self):
        return 1 if bool(self) else 0

    def __index__(self):
        return 1 if bool(self) else 0


def _b(o):
    if isinstance(o, SymBool):
        return o.t
    if isinstance(o, bool):
        return z3.BoolVal(o)
    raise TypeError(f"not a bool: {o!r}")


def sym_not(x):
    if isinstance(x, SymBool):
        return ~x
    return not x


def sym_and(*xs):
    """Non-forking conjunction of python bools / SymBools."""
    ts = []
    for x in xs:
        if isinstance(x, SymBool):
            ts.append(x.t)
        elif not x:
            return False
    if not ts:
        return True
    return SymBool(z3.And(*ts))


def sym_or(*xs):
    ts = []
    for x in xs:
        if isinstance(x, SymBool):
            ts.append(x.t)
        elif x:
            return True
    if not ts:
        return False
    return SymBool(z3.Or(*ts))


class SymNum:
    """Arithmetic proxy over a z3 Int or Real term."""

    __slots__ = ("t",)

    def __init__(self, t):
        if isinstance(t, SymNum):
            t = t.t
        elif not isinstance(t, z3.ExprRef):
            t = to_z3(t)
        self.t = t

    # ---- sort helpers
    @property
    def is_int(self):
        return self.t.sort() == z3.IntSort()

    def _bin(self, o, f, rev=False):
        if isinstance(o, SymBool):
            o = SymNum(z3.If(o.t, 1, 0))
        if not (isinstance(o, SymNum) or _is_num(o) or isinstance(o, bool)):
            return NotImplemented
        a, b = _both(self.t, to_z3(o))
        if rev:
            a, b = b, a
        return SymNum(_simp(f(a, b)))

    def __add__(self, o):
        return self._bin(o, lambda a, b: a + b)

    def __radd__(self, o):
        return self._bin(o, lambda a, b: a + b, True)

    def __sub__(self, o):
        return self._bin(o, lambda a, b: a - b)

    def __rsub__(self, o):
        return self._bin(o, lambda a, b: a - b, True)

    def __mul__(self, o):
        return self._bin(o, lambda a, b: a * b)

    def __rmul__(self, o):
        return self._bin(o, lambda a, b: a * b, True)

    def _truediv(self, o, rev=False):
        if not (isinstance(o, SymNum) or _is_num(o)):
            return NotImplemented
        a, b = _real(self.t), _real(to_z3(o))
        if rev:
            a, b = b, a
        # Python raises ZeroDivisionError; make that an explicit outcome
        bz = _simp(b == 0)
        if not z3.is_false(bz):
            if bool(SymBool(bz)):
                raise ZeroDivisionError("symbolic division by zero")
        return SymNum(_simp(a / b))

    def __truediv__(self, o):
        return self._truediv(o)

    def __rtruediv__(self, o):
        return self._truediv(o, True)

    def _floordiv(self, o, rev=False):
        if not (isinstance(o, SymNum) or _is_num(o)):
            return NotImplemented
        a, b = self.t, to_z3(o)
        if rev:
            a, b = b, a
        bz = _simp(b == 0)
        if not z3.is_false(bz):
            if bool(SymBool(bz)):
                raise ZeroDivisionError("symbolic floor division by zero")
        if a.sort() == z3.IntSort() and b.sort() == z3.IntSort():
            # python floor division; z3 int div is euclidean (floor for b>0)
            # z3 int div is euclidean (== floor for b > 0); for b < 0 use the real floor
            q = z3.If(b > 0, a / b, z3.ToInt(z3.ToReal(a) / z3.ToReal(b)))
            return SymNum(_simp(q))
        q = z3.ToInt(_real(a) / _real(b))
        return SymNum(_simp(z3.ToReal(q)))

    def __floordiv__(self, o):
        return self._floordiv(o)

    def __rfloordiv__(self, o):
        return self._floordiv(o, True)

    def __mod__(self, o):
        if not (isinstance(o, SymNum) or _is_num(o)):
            return NotImplemented
        q = self._floordiv(o)
        return self - q * o

    def __rmod__(self, o):
        if not _is_num(o):
            return NotImplemented
        return SymNum(o) % self

    # bit operations on (non-negative, < 2**40) ints: shifts by a concrete amount are exact arithmetic,
    # and/or/xor go through a 40-bit vector view of the two operands
    def __lshift__(self, o):
        if isinstance(o, int) and o >= 0 and self.is_int:
            return self * (1 << o)
        return NotImplemented

    def __rshift__(self, o):
        if isinstance(o, int) and o >= 0 and self.is_int:
            return self // (1 << o)
        return NotImplemented

    def _bitop(self, o, f, kind=""):
        if isinstance(o, bool) or not (isinstance(o, int) or (isinstance(o, SymNum) and o.is_int)) or not self.is_int:
            return NotImplemented
        a, b = self.t, (o.t if isinstance(o, SymNum) else z3.IntVal(o))
        assume(SymBool(z3.And(a >= 0, a < 2**40, b >= 0, b < 2**40)))
        if kind in ("or", "xor"):
            # packing idiom (x << 8) | y: when the path condition entails the operands share no bits the
            # result is their sum -- keeps the term linear (Int2BV terms make later queries crawl)
            c = ctx()
            for k in range(4, 40, 4):
                for hi, lo in ((a, b), (b, a)):
                    if c.solver.check(z3.Not(z3.And(lo < 2**k, hi % (2**k) == 0))) == z3.unsat:
                        return SymNum(_simp(a + b))
        return SymNum(_simp(z3.BV2Int(f(z3.Int2BV(a, 41), z3.Int2BV(b, 41)), False)))

    def __and__(self, o):
        return self._bitop(o, lambda x, y: x & y)

    __rand__ = __and__

    def __or__(self, o):
        return self._bitop(o, lambda x, y: x | y, "or")

    __ror__ = __or__

    def __xor__(self, o):
        return self._bitop(o, lambda x, y: x ^ y, "xor")

    __rxor__ = __xor__

    def __neg__(self):
        return SymNum(_simp(-self.t))

    def __pos__(self):
        return self

    def __abs__(self):
        return SymNum(_simp(z3.If(self.t >= 0, self.t, -self.t)))

    def __pow__(self, o):
        if isinstance(o, int) and 0 <= o <= 4:
            r = SymNum(1) if self.is_int else SymNum(z3.RealVal(1))
            for _ in range(o):
                r = r * self
            return r
        if isinstance(o, float) and o == 0.5:
            return sym_sqrt(self)
        return NotImplemented

    # ---- comparisons
    def _cmp(self, o, f):
        if isinstance(o, SymBool):
            o = SymNum(z3.If(o.t, 1, 0))
        if not (isinstance(o, SymNum) or _is_num(o) or isinstance(o, bool)):
            return NotImplemented
        a, b = _both(self.t, to_z3(o))
        return SymBool(_simp(f(a, b)))

    def __lt__(self, o):
        return self._cmp(o, lambda a, b: a < b)

    def __le__(self, o):
        return self._cmp(o, lambda a, b: a <= b)

    def __gt__(self, o):
        return self._cmp(o, lambda a, b: a > b)

    def __ge__(self, o):
        return self._cmp(o, lambda a, b: a >= b)

    def __eq__(self, o):
        r = self._cmp(o, lambda a, b: a == b)
        if r is NotImplemented:
            return False if o is None else NotImplemented
        return r

    def __ne__(self, o):
        r = self._cmp(o, lambda a, b: a != b)
        if r is NotImplemented:
            return True if o is None else NotImplemented
        return r

    def __bool__(self):
        return bool(self != 0)

    # ---- rounding family
    def __round__(self, ndigits=None):
        return sym_round(self, ndigits)

    def __floor__(self):
        return sym_floor(self)

    def __ceil__(self):
        return sym_ceil(self)

    def __trunc__(self):
        return sym_trunc(self)

    def is_integer(self):
        if self.is_int:
            return True
        return SymBool(_simp(z3.ToReal(z3.ToInt(self.t)) == self.t))

    def conjugate(self):
        return self

    @property
    def real(self):
        return self

    @property
    def imag(self):
        return 0

    # ---- concretisation (forks over a small integer range)
    def concretize(self) -> int:
        t = _simp(self.t)
        if z3.is_int_value(t):
            return t.as_long()
        if z3.is_rational_value(t):
            fr = Fraction(t.numerator_as_long(), t.denominator_as_long())
            if fr.denominator == 1:
                return int(fr)
        if not self.is_int:
            # allow reals only if they are forced integral
            it = z3.ToInt(t)
            if ctx().feasible(z3.ToReal(it) != t):
                raise HarnessError(f"refusing to concretise non-integral real term {t}")
            t = it
        c = ctx()
        # replay
        if c.pos < len(c.prefix):
            v = c.prefix[c.pos]
            c.pos += 1
            c.decisions.append(v)
            c.arity.append(-1)
            c.add(t == v)
            return v
        # enumerate model values
        vals = []
        s = c.solver
        s.push()
        try:
            while True:
                t0 = time.time()
                r = s.check()
                c.solver_s += time.time() - t0
                c.n_checks += 1
                if r == z3.unknown:
                    raise HarnessError("unknown while concretising")
                if r == z3.unsat:
                    break
                m = s.model()
                v = m.eval(t, model_completion=True).as_long()
                vals.append(v)
                s.add(t != v)
                if len(vals) > 64:
                    raise HarnessError(f"refusing to concretise wide-ranged term {t}")
        finally:
            s.pop()
        if not vals:
            raise PathAbort()
        vals.sort()
        v = vals[0]
        for other in vals[1:]:
            c.pending.append(c.decisions + [other])
        c.pos += 1
        c.decisions.append(v)
        c.arity.append(-1)
        c.add(t == v)
        return v

    def __index__(self):
        return self.concretize()

    def __hash__(self):
        t = _simp(self.t)
        if z3.is_int_value(t):
            return hash(t.as_long())
        if z3.is_rational_value(t):
            return hash(Fraction(t.numerator_as_long(), t.denominator_as_long()))
        return hash(self.concretize())

    def __int__(self):
        # CPython's int() requires a real int: only legal when value is forced
        return self.concretize() if self.is_int else sym_trunc(self).concretize()

    def __float__(self):
        t = _simp(self.t)
        if z3.is_int_value(t):
            return float(t.as_long())
        if z3.is_rational_value(t):
            return float(Fraction(t.numerator_as_long(), t.denominator_as_long()))
        raise HarnessError(
            f"float() of symbolic term {t}: a C-level boundary needs a shim here"
        )

    # ---- strings: tokens
    def __str__(self):
        t = _simp(self.t)
        if z3.is_int_value(t):
            return str(t.as_long())
        return make_token(self)

    def __repr__(self):
        t = _simp(self.t)
        if z3.is_int_value(t):
            return str(t.as_long())
        if z3.is_rational_value(t):
            return f"{Fraction(t.numerator_as_long(), t.denominator_as_long())}"
        if active():
            return make_token(self)
        return f"SymNum({t})"

    def __format__(self, spec):
        t = _simp(self.t)
        if z3.is_int_value(t):
            return format(t.as_long(), spec)
        if self.is_int and _HEX_SPEC.fullmatch(spec):
            return make_token(self, spec)  # digit count matters to whoever reads the string (colours)
        return make_token(self)


# tokens ---------------------------------------------------------------------

TOK_L, TOK_R = "⟦", "⟧"


_HEX_SPEC = re.compile(r"0?\d*[xX]")


def make_token(v: SymNum, spec: str = "") -> str:
    """A placeholder for a symbolic number inside a string.  `spec` (hex format specs only) is kept in
    the token text -- "⟦3:02X⟧" -- so that a reader of the string can account for the digit count."""
    c = ctx()
    key = (v.t.get_id(), spec) if spec else v.t.get_id()
    for tok, (kid, _) in c.tokens.items():
        if kid == key:
            return tok
    tok = f"{TOK_L}{len(c.tokens)}{':' + spec if spec else ''}{TOK_R}"
    c.tokens[tok] = (key, v)
    return tok


def parse_number(s: str, tokens: Optional[dict] = None):
    """Inverse of SymNum.__str__: token -> SymNum, plain number -> float/int."""
    s = s.strip()
    if s.startswith(TOK_L) and s.endswith(TOK_R):
        tb = tokens if tokens is not None else ctx().tokens
        return tb[s][1]
    if s.startswith("-" + TOK_L) and s.endswith(TOK_R):
        tb = tokens if tokens is not None else ctx().tokens
        return -tb[s[1:]][1]
    try:
        return int(s)
    except ValueError:
        return float(s)


# --------------------------------------------------------------------------- builtins


def sym_trunc(x):
    """int(x) for floats: truncation toward zero (returns Int-sorted SymNum)."""
    if isinstance(x, SymBool):
        return SymNum(z3.If(x.t, 1, 0))
    if not isinstance(x, SymNum):
        return int(x)
    if x.is_int:
        return x
    t = x.t
    return SymNum(_simp(z3.If(t >= 0, z3.ToInt(t), -z3.ToInt(-t))))


def sym_floor(x):
    if not isinstance(x, SymNum):
        return math.floor(x)
    if x.is_int:
        return x
    return SymNum(_simp(z3.ToInt(x.t)))


def sym_ceil(x):
    if not isinstance(x, SymNum):
        return math.ceil(x)
    if x.is_int:
        return x
    return SymNum(_simp(-z3.ToInt(-x.t)))


def _round_half_even_int(t):
    """t Real -> Int term, Python round() semantics."""
    f = z3.ToInt(t + z3.RealVal(Fraction(1, 2)))
    tie = z3.ToReal(f) == t + z3.RealVal(Fraction(1, 2))
    return z3.If(z3.And(tie, f % 2 != 0), f - 1, f)


def sym_round(x, ndigits=None):
    if not isinstance(x, SymNum):
        return round(x, ndigits) if ndigits is not None else round(x)
    if ndigits is None:
        if x.is_int:
            return x
        return SymNum(_simp(_round_half_even_int(x.t)))
    if x.is_int and ndigits >= 0:
        return x
    c = ctx()
    if c.round_mode == "identity":
        return x
    if c.round_mode == "delta":
        r = fresh_real("rnd")
        half = Fraction(1, 2 * 10**ndigits)
        c.add(z3.And(r.t - x.t <= half, x.t - r.t <= half), definitional=True)
        return r
    scale = 10**ndigits
    it = _round_half_even_int(_real(x.t) * scale)
    return SymNum(_simp(z3.ToReal(it) / scale))


def sym_otround(x):
    """fontTools.misc.roundTools.otRound: int(math.floor(v + 0.5))."""
    if not isinstance(x, SymNum):
        return int(math.floor(x + 0.5))
    if x.is_int:
        return x
    return SymNum(_simp(z3.ToInt(x.t + z3.RealVal(Fraction(1, 2)))))


def sym_float(x):
    if isinstance(x, SymNum):
        if x.is_int:
            return SymNum(_simp(z3.ToReal(x.t)))
        return x
    if isinstance(x, str) and TOK_L in x:
        return parse_number(x)
    return float(x)


def sym_int(x, *a):
    if isinstance(x, (SymNum, SymBool)):
        return sym_trunc(x)
    if isinstance(x, str) and TOK_L in x:
        return sym_trunc(parse_number(x))
    return int(x, *a)


def sym_abs(x):
    return abs(x)


def sym_sqrt(x):
    """sqrt as fresh h >= 0 with h*h == x (x >= 0 assumed by math.sqrt's domain)."""
    if not isinstance(x, SymNum):
        return math.sqrt(x)
    t = _simp(_real(x.t))
    if z3.is_rational_value(t):
        fr = Fraction(t.numerator_as_long(), t.denominator_as_long())
        r = math.isqrt(fr.numerator), math.isqrt(fr.denominator)
        if r[0] ** 2 == fr.numerator and r[1] ** 2 == fr.denominator:
            return SymNum(z3.RealVal(Fraction(r[0], r[1])))
    c = ctx()
    key = ("sqrt", t.get_id())
    if key in c.trig:
        return c.trig[key]
    if bool(SymBool(t < 0)):
        raise ValueError("math domain error")
    h = fresh_real("sqrt")
    c.add(z3.And(h.t >= 0, h.t * h.t == t), definitional=True)
    c.trig[key] = h
    return h


def sym_hypot(a, b):
    if not isinstance(a, SymNum) and not isinstance(b, SymNum):
        return math.hypot(a, b)
    a = a if isinstance(a, SymNum) else SymNum(a)
    b = b if isinstance(b, SymNum) else SymNum(b)
    ta, tb = _simp(_real(a.t)), _simp(_real(b.t))
    # exact shortcuts keep queries linear when one leg is zero
    if z3.is_rational_value(tb) and tb.numerator_as_long() == 0:
        return abs(SymNum(ta))
    if z3.is_rational_value(ta) and ta.numerator_as_long() == 0:
        return abs(SymNum(tb))
    c = ctx()
    key = ("hypot", ta.get_id(), tb.get_id())
    if key in c.trig:
        return c.trig[key]
    h = fresh_real("hyp")
    c.add(z3.And(h.t >= 0, h.t * h.t == ta * ta + tb * tb), definitional=True)
    c.trig[key] = h
    return h


def sym_copysign(x, y):
    if not isinstance(x, SymNum) and not isinstance(y, SymNum):
        return math.copysign(x, y)
    x = x if isinstance(x, SymNum) else SymNum(x)
    ax = abs(x)
    if not isinstance(y, SymNum):
        neg = math.copysign(1.0, y) < 0
        return -ax if neg else ax
    # sign of -0.0 is outside the real model (y == 0 taken as positive)
    return SymNum(_simp(z3.If(y.t >= 0, _real(ax.t), -_real(ax.t))))


_R = z3.RealSort()
UF_COS = z3.Function("cos", _R, _R)
UF_SIN = z3.Function("sin", _R, _R)
UF_TAN = z3.Function("tan", _R, _R)
UF_RAD = z3.Function("radians", _R, _R)


def _reg_angle(t):
    """Trig as uninterpreted functions (congruence for free) plus the axioms the
    kernels need: cos^2+sin^2=1 per angle, and parity for pairs of angles."""
    c = ctx()
    lst = c.trig.setdefault("angles", [])
    for u in lst:
        if u.get_id() == t.get_id():
            return
    c.add(UF_COS(t) * UF_COS(t) + UF_SIN(t) * UF_SIN(t) == 1, definitional=True)
    for u in lst + [t]:
        c.add(
            z3.Implies(
                t == -u,
                z3.And(
                    UF_COS(t) == UF_COS(u),
                    UF_SIN(t) == -UF_SIN(u),
                    UF_TAN(t) == -UF_TAN(u),
                ),
            ),
            definitional=True,
        )
    lst.append(t)


def sym_cos(a):
    if not isinstance(a, SymNum):
        return math.cos(a)
    t = _simp(_real(a.t))
    _reg_angle(t)
    return SymNum(UF_COS(t))


def sym_sin(a):
    if not isinstance(a, SymNum):
        return math.sin(a)
    t = _simp(_real(a.t))
    _reg_angle(t)
    return SymNum(UF_SIN(t))


def sym_tan(a):
    if not isinstance(a, SymNum):
        return math.tan(a)
    t = _simp(_real(a.t))
    _reg_angle(t)
    return SymNum(UF_TAN(t))


def sym_radians(a):
    """radians() as an odd uninterpreted function (keeps angle terms linear)."""
    if not isinstance(a, SymNum):
        return math.radians(a)
    t = _simp(_real(a.t))
    c = ctx()
    lst = c.trig.setdefault("rads", [])
    if not any(u.get_id() == t.get_id() for u in lst):
        for u in lst + [t]:
            c.add(z3.Implies(t == -u, UF_RAD(t) == -UF_RAD(u)), definitional=True)
        lst.append(t)
    return SymNum(UF_RAD(t))


def sym_min(*a, **kw):
    if len(a) == 1:
        a = tuple(a[0])
    if not any(isinstance(v, SymNum) for v in a) or kw:
        return min(*a, **kw) if len(a) > 1 else min(a, **kw)
    r = a[0]
    for v in a[1:]:
        r = ite(v < r, v, r)
    return r


def sym_max(*a, **kw):
    if len(a) == 1:
        a = tuple(a[0])
    if not any(isinstance(v, SymNum) for v in a) or kw:
        return max(*a, **kw) if len(a) > 1 else max(a, **kw)
    r = a[0]
    for v in a[1:]:
        r = ite(v > r, v, r)
    return r


def ite(cond, a, b):
    """Non-forking if-then-else on numbers."""
    if not isinstance(cond, SymBool):
        return a if cond else b
    ct = _simp(cond.t)
    if z3.is_true(ct):
        return a
    if z3.is_false(ct):
        return b
    ta, tb = _both(to_z3(a), to_z3(b))
    return SymNum(_simp(z3.If(ct, ta, tb)))


# --------------------------------------------------------------------------- inputs


def fresh_real(hint="r", lo=None, hi=None) -> SymNum:
    c = ctx()
    v = SymNum(z3.Real(c.fresh_name(hint)))
    if lo is not None:
        c.add(v.t >= to_z3(lo), definitional=True)
    if hi is not None:
        c.add(v.t <= to_z3(hi), definitional=True)
    return v


def fresh_int(hint="i", lo=None, hi=None) -> SymNum:
    c = ctx()
    v = SymNum(z3.Int(c.fresh_name(hint)))
    if lo is not None:
        c.add(v.t >= lo, definitional=True)
    if hi is not None:
        c.add(v.t <= hi, definitional=True)
    return v


def real(name, lo=None, hi=None) -> SymNum:
    """Named symbolic real input (same name on every path)."""
    c = ctx()
    v = SymNum(z3.Real(name))
    if lo is not None:
        c.add(v.t >= to_z3(lo), definitional=True)
    if hi is not None:
        c.add(v.t <= to_z3(hi), definitional=True)
    return v


def integer(name, lo=None, hi=None) -> SymNum:
    c = ctx()
    v = SymNum(z3.Int(name))
    if lo is not None:
        c.add(v.t >= lo, definitional=True)
    if hi is not None:
        c.add(v.t <= hi, definitional=True)
    return v


def boolean(name) -> SymBool:
    return SymBool(z3.Bool(name))


def assume(cond):
    """Constrain inputs (before the code they constrain)."""
    if isinstance(cond, SymBool):
        c = ctx()
        t = _simp(cond.t)
        if z3.is_false(t):
            raise PathAbort()
        c.add(t, definitional=True)
        return
    if not cond:
        raise PathAbort()


def choice(n: int, label: str = "") -> int:
    """Explicit nondeterminism: fork n ways."""
    c = ctx()
    if n <= 0:
        raise PathAbort()
    if c.pos < len(c.prefix):
        k = c.prefix[c.pos]
        c.pos += 1
        c.decisions.append(k)
        c.arity.append(n)
        return k
    for other in range(1, n):
        c.pending.append(c.decisions + [other])
    c.pos += 1
    c.decisions.append(0)
    c.arity.append(n)
    return 0


def cut(reason: str):
    raise PathCut(reason)


def note(s: str):
    if active():
        ctx().notes.append(s)


# --------------------------------------------------------------------------- queries


class Verdict:
    UNSAT = "unsat"
    SAT = "sat"
    UNKNOWN = "unknown"


def check(constraints: Sequence[z3.BoolRef], negated_property, timeout_ms=20000):
    """Return (verdict, model|None, seconds)."""
    s = z3.Solver()
    s.set("timeout", timeout_ms)
    for c in constraints:
        s.add(c)
    if negated_property is not None:
        s.add(negated_property)
    t = time.time()
    r = s.check()
    dt = time.time() - t
    if r == z3.sat:
        return Verdict.SAT, s.model(), dt
    if r == z3.unsat:
        return Verdict.UNSAT, None, dt
    return Verdict.UNKNOWN, None, dt


def model_value(m: z3.ModelRef, v):
    """Concrete python value (Fraction/int/bool) of a proxy or python value under model m."""
    if isinstance(v, SymNum):
        r = m.eval(v.t, model_completion=True)
        if z3.is_int_value(r):
            return r.as_long()
        if z3.is_rational_value(r):
            return Fraction(r.numerator_as_long(), r.denominator_as_long())
        if z3.is_algebraic_value(r):
            a = r.approx(30)
            return Fraction(a.numerator_as_long(), a.denominator_as_long())
        raise HarnessError(f"cannot evaluate {v.t} in model: {r}")
    if isinstance(v, SymBool):
        return z3.is_true(m.eval(v.t, model_completion=True))
    return v


def as_term(v):
    """python number or proxy -> z3 Real term."""
    return _real(to_z3(v))


def eq_tol(a, b, tol) -> z3.BoolRef:
    ta, tb = as_term(a), as_term(b)
    if tol == 0:
        return ta == tb
    tolr = z3.RealVal(Fraction(tol))
    return z3.And(ta - tb <= tolr, tb - ta <= tolr)
