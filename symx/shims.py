"""Module-global shims: C-level builtins cannot accept proxies, so harnesses install
replacements *from outside* (never by editing /repo). Every shim is a semantic no-op on
concrete values; `validate_shims` checks that differentially on each run.
"""
from __future__ import annotations

import contextlib
import importlib
import math
from typing import Any, List, Tuple

from . import core

_MISSING = object()


class Shim:
    def __init__(self, module: str, name: str, replacement: Any, why: str):
        self.module = module
        self.name = name
        self.replacement = replacement
        self.why = why

    def describe(self):
        return f"{self.module}.{self.name} -> {getattr(self.replacement, '__name__', repr(self.replacement))}: {self.why}"


@contextlib.contextmanager
def installed(shims: List[Shim]):
    saved: List[Tuple[Any, str, Any]] = []
    try:
        for s in shims:
            try:
                mod = importlib.import_module(s.module) if isinstance(s.module, str) else s.module
            except ImportError as e:
                raise core.HarnessError(f"shim target {s.module!r} cannot be imported: {e}")
            old = mod.__dict__.get(s.name, _MISSING)
            saved.append((mod, s.name, old))
            setattr(mod, s.name, s.replacement)
        yield
    finally:
        for mod, name, old in reversed(saved):
            if old is _MISSING:
                try:
                    delattr(mod, name)
                except AttributeError:
                    pass
            else:
                setattr(mod, name, old)


class _SymMath:
    """Drop-in for the `math` module attribute of a target module."""

    def __getattr__(self, name):
        return getattr(math, name)

    floor = staticmethod(core.sym_floor)
    ceil = staticmethod(core.sym_ceil)
    sqrt = staticmethod(core.sym_sqrt)
    hypot = staticmethod(core.sym_hypot)
    cos = staticmethod(core.sym_cos)
    sin = staticmethod(core.sym_sin)
    tan = staticmethod(core.sym_tan)
    radians = staticmethod(core.sym_radians)
    copysign = staticmethod(core.sym_copysign)


SYM_MATH = _SymMath()


class SymRange:
    """`range` look-alike built from a live range object; __contains__ is symbolic."""

    def __init__(self, r: range):
        self.start, self.stop, self.step = r.start, r.stop, r.step
        self._r = r

    def __contains__(self, v):
        if isinstance(v, core.SymNum):
            import z3

            t = v.t
            conds = [t >= self.start, t < self.stop]
            if self.step != 1:
                conds.append((t - self.start) % self.step == 0)
            if not v.is_int:
                conds.append(z3.ToReal(z3.ToInt(t)) == t)
            return bool(core.SymBool(z3.And(*conds)))
        return v in self._r

    def __iter__(self):
        return iter(self._r)

    def __len__(self):
        return len(self._r)

    def __repr__(self):
        return repr(self._r)


def std_shims() -> List[Shim]:
    """Shims shared by most numeric harnesses."""
    S = Shim
    return [
        S("nanoemoji.fixed", "int", core.sym_int, "int(v) in int16_safe: truncation"),
        S("nanoemoji.paint", "copysign", core.sym_copysign, "math.copysign is C"),
        S("nanoemoji.paint", "radians", core.sym_radians, "math.radians is C"),
        S("picosvg.svg_transform", "hypot", core.sym_hypot, "math.hypot is C"),
        S("picosvg.svg_transform", "cos", core.sym_cos, "math.cos is C"),
        S("picosvg.svg_transform", "sin", core.sym_sin, "math.sin is C"),
        S("picosvg.svg_transform", "tan", core.sym_tan, "math.tan is C"),
        S("picosvg.svg_transform", "radians", core.sym_radians, "math.radians is C"),
        S("picosvg.geometric_types", "math", SYM_MATH, "math.sqrt/hypot are C"),
        S(
            "picosvg.geometric_types",
            "float",
            (float, core.SymNum),
            "isinstance(scalar,(int,float)) in Vector.__mul__ must accept proxies",
        ),
    ]


def numeric_shims(*modules: str) -> List[Shim]:
    """Pre-install int/float/round/math shims in a module even if its current source does
    not use them: a changed tree that introduces int(x)/math.floor(x) on a symbolic value
    must be *decided*, not crash the harness at a C boundary."""
    out = []
    for m in modules:
        mod = importlib.import_module(m)
        out.append(Shim(m, "int", core.sym_int, "int() is C (robustness against changed code)"))
        out.append(Shim(m, "float", core.sym_float, "float() is C (robustness against changed code)"))
        if "math" in mod.__dict__:
            out.append(Shim(m, "math", SYM_MATH, "math.* is C"))
    return out
