"""A backtracking regular-expression matcher over SymStr (characters may be symbolic code points).

Stands in for the C modules `re` / `regex` inside instrumented repo modules.  The pattern text is parsed by
Python's own sre parser; matching follows the usual leftmost, greedy-with-backtracking semantics.  Every test
of a symbolic character against a literal or a character class goes through SymBool.__bool__, i.e. forks the
exploration, so one concrete run of the matcher corresponds to one class of strings and the capture
positions are concrete on every path.

Supported: literals, character sets (ranges, literals, negation), `.`, greedy and lazy repetition,
(non-)capturing groups, alternation, ^ and $.  `captures(n)` (a `regex`-module feature: every capture of a
repeated group) is provided.  Anything else raises HarnessError so that an unsupported construct is reported
as a harness error rather than mis-modelled.
"""
from __future__ import annotations

from typing import List, Optional

import z3

from . import core
from .strings import SymStr


def _char_is(c, code: int) -> bool:
    if isinstance(c, core.SymNum):
        return bool(core.SymBool(c.t == code))
    return c == code


def _char_in_range(c, lo: int, hi: int) -> bool:
    if isinstance(c, core.SymNum):
        return bool(core.SymBool(z3.And(c.t >= lo, c.t <= hi)))
    return lo <= c <= hi


class Match:
    def __init__(self, s: SymStr, start: int, end: int, caps):
        self._s, self._start, self._end, self._caps = s, start, end, caps

    def _slice(self, a, b):
        out = SymStr(self._s.chars[a:b])
        return out.concrete() if out.is_concrete() else out

    def group(self, n=0):
        if n == 0:
            return self._slice(self._start, self._end)
        spans = self._caps.get(n)
        return self._slice(*spans[-1]) if spans else None

    def groups(self):
        return tuple(self.group(i) for i in sorted(self._caps))

    def captures(self, n=0):
        if n == 0:
            return [self.group(0)]
        return [self._slice(a, b) for a, b in self._caps.get(n, [])]

    def span(self, n=0):
        return (self._start, self._end) if n == 0 else self._caps[n][-1]

    def start(self, n=0):
        return self.span(n)[0]

    def end(self, n=0):
        return self.span(n)[1]


class Pattern:
    def __init__(self, pattern: str, flags: int = 0):
        import re._parser as sp

        if flags:
            raise core.HarnessError("regex flags are not modelled")
        self.pattern = pattern
        self.tree = sp.parse(pattern)

    # -- matcher (continuation passing; returns the end position of the first successful match or None)
    def _match_items(self, items, k, s, pos, caps, cont):
        from re._constants import LITERAL, NOT_LITERAL, IN, ANY, MAX_REPEAT, MIN_REPEAT, SUBPATTERN, BRANCH, AT, AT_BEGINNING, AT_BEGINNING_STRING, AT_END, AT_END_STRING, MAXREPEAT

        if k == len(items):
            return cont(pos, caps)
        op, arg = items[k]
        nxt = lambda p, c: self._match_items(items, k + 1, s, p, c, cont)
        n = len(s.chars)
        if op is LITERAL or op is NOT_LITERAL:
            if pos >= n:
                return None
            hit = _char_is(s.chars[pos], arg)
            return nxt(pos + 1, caps) if hit == (op is LITERAL) else None
        if op is ANY:
            if pos >= n or _char_is(s.chars[pos], 10):
                return None
            return nxt(pos + 1, caps)
        if op is IN:
            if pos >= n:
                return None
            return nxt(pos + 1, caps) if self._in_set(arg, s.chars[pos]) else None
        if op is AT:
            if arg in (AT_BEGINNING, AT_BEGINNING_STRING):
                return nxt(pos, caps) if pos == 0 else None
            if arg in (AT_END, AT_END_STRING):
                return nxt(pos, caps) if pos == n else None
            raise core.HarnessError(f"regex anchor {arg} not modelled")
        if op is SUBPATTERN:
            gid, add, dele, sub = arg
            if add or dele:
                raise core.HarnessError("inline regex flags not modelled")

            def after(p, c, start=pos):
                if gid is not None:
                    c = dict(c)
                    c[gid] = c.get(gid, []) + [(start, p)]
                return nxt(p, c)

            return self._match_items(list(sub), 0, s, pos, caps, after)
        if op is BRANCH:
            for alt in arg[1]:
                r = self._match_items(list(alt), 0, s, pos, caps, nxt)
                if r is not None:
                    return r
            return None
        if op in (MAX_REPEAT, MIN_REPEAT):
            lo, hi, sub = arg
            sub = list(sub)
            hi = 10**9 if hi is MAXREPEAT else hi
            greedy = op is MAX_REPEAT

            def rep(count, p, c):
                def more():
                    if count >= hi:
                        return None
                    # an iteration that consumes nothing cannot help (and would loop)
                    return self._match_items(sub, 0, s, p, c, lambda p2, c2: rep(count + 1, p2, c2) if p2 > p else None)

                def stop():
                    return nxt(p, c) if count >= lo else None

                for step in ((more, stop) if greedy else (stop, more)):
                    r = step()
                    if r is not None:
                        return r
                return None

            return rep(0, pos, caps)
        raise core.HarnessError(f"regex construct {op} not modelled")

    def _in_set(self, items, c) -> bool:
        """one decision per character: the whole set is a single disjunction (not one fork per range)"""
        from re._constants import LITERAL, RANGE, NEGATE

        neg = False
        ranges = []
        for op, arg in items:
            if op is NEGATE:
                neg = True
            elif op is LITERAL:
                ranges.append((arg, arg))
            elif op is RANGE:
                ranges.append((arg[0], arg[1]))
            else:
                raise core.HarnessError(f"character-set item {op} not modelled")
        if isinstance(c, core.SymNum):
            hit = bool(core.SymBool(z3.Or(*[z3.And(c.t >= lo, c.t <= hi) for lo, hi in ranges]))) if ranges else False
        else:
            hit = any(lo <= c <= hi for lo, hi in ranges)
        return hit != neg

    def _at(self, s: SymStr, start: int, full=False) -> Optional[Match]:
        found = {}

        def done(p, c):
            if full and p != len(s.chars):
                return None
            found["caps"] = c
            return p

        end = self._match_items(list(self.tree), 0, s, start, {}, done)
        if end is None:
            return None
        return Match(s, start, end, found["caps"])

    def match(self, s):
        return self._at(SymStr.of(s), 0)

    def fullmatch(self, s):
        return self._at(SymStr.of(s), 0, full=True)

    def search(self, s):
        s = SymStr.of(s)
        for start in range(len(s.chars) + 1):
            m = self._at(s, start)
            if m is not None:
                return m
        return None


class RegexModule:
    """what `re` / `regex` is bound to inside an instrumented module"""

    def compile(self, pattern, flags=0):
        return Pattern(pattern, flags)

    def search(self, pattern, s, flags=0):
        return Pattern(pattern, flags).search(s)

    def match(self, pattern, s, flags=0):
        return Pattern(pattern, flags).match(s)

    def fullmatch(self, pattern, s, flags=0):
        return Pattern(pattern, flags).fullmatch(s)
