from .core import *  # noqa
from . import core, shims, runner  # noqa
