#!/bin/bash
# tools/seed_matrix.sh [parallelism]
# Runs every confirmed seeded defect against the check of its own property (quick tier) and records the
# outcome in seeded/<id>/meta.json (detected_by) and seeded/MATRIX.tsv.  Each seed gets a scratch git
# worktree of /repo with the patch applied; the check runs against it (PYTHONPATH=<worktree>/src) with
# its evidence/replays redirected to a scratch directory, and both are removed afterwards.
# (Equivalent, one at a time, on /repo itself: tools/try_seed.sh <patch> <Cxx>.)
cd /verif
par=${1:-4}
one() {
  d=$1; id=$(basename $d); prop=${id%%-*}
  patch=/verif/$d/patch.diff; [ -f /verif/$d/patch_rebased.diff ] && patch=/verif/$d/patch_rebased.diff
  wt=/tmp/mx_$id; outd=/tmp/mx_out_$id
  rm -rf $wt $outd; git -C /repo worktree add -q $wt HEAD 2>/dev/null || { echo -e "$id\t$prop\tn/a\tworktree failed"; return; }
  if ! git -C $wt apply $patch 2>/dev/null; then
    echo -e "$id\t$prop\tn/a\tpatch does not apply to the fixed tree (see meta.json note)"
  else
    log=$outd.log
    PYTHONPATH=$wt/src SYMX_OUT_DIR=$outd timeout 2400 ./check $prop --tier quick > $log 2>&1; rc=$?
    keys=$(grep -A1 "^VIOLATION" $log | grep "key=" | sed 's/.*key=\([^ ]*\).*/\1/' | sort -u | head -4 | tr '\n' ' ')
    echo -e "$id\t$prop\t$rc\t$keys"
    python3 - "$d" "$prop" "$rc" "$keys" <<'PY'
import json,sys
d,prop,rc,keys=sys.argv[1:5]
p=d+'/meta.json'; m=json.load(open(p))
m['detected_by']={"check":f"./check {prop} --tier quick","exit":int(rc),"violation_keys":keys.split(),"detected":rc=="1"}
json.dump(m,open(p,'w'),indent=1)
PY
    rm -f $log
  fi
  git -C /repo worktree remove --force $wt 2>/dev/null; rm -rf $wt $outd
}
export -f one
out=seeded/MATRIX.tsv
ls -d seeded/C*-[mnpqr]* | xargs -P $par -I{} bash -c 'one {}' > /tmp/mx_rows.tsv
git -C /repo worktree prune
( echo -e "seed\tproperty\tcheck_exit\tviolation_keys"; sort /tmp/mx_rows.tsv ) > $out; rm -f /tmp/mx_rows.tsv
cat $out
