#!/bin/bash
# Runs every confirmed seeded defect against the check of its own property (quick tier) and
# records the outcome in seeded/<id>/meta.json (detected_by) and seeded/MATRIX.tsv.
cd /verif
out=seeded/MATRIX.tsv
echo -e "seed\tproperty\tcheck_exit\tviolation_keys" > $out
for d in seeded/C*-m*; do
  id=$(basename $d); prop=${id%%-*}
  patch=/verif/$d/patch.diff; [ -f /verif/$d/patch_rebased.diff ] && patch=/verif/$d/patch_rebased.diff
  if ! git -C /repo apply --check $patch 2>/dev/null; then
    echo -e "$id\t$prop\tn/a\tpatch does not apply to the fixed tree (see meta.json note)" >> $out; continue
  fi
  git -C /repo apply $patch
  log=$(mktemp)
  timeout 1500 ./check $prop --tier quick > $log 2>&1; rc=$?
  git -C /repo checkout -- .
  keys=$(grep -A1 "^VIOLATION" $log | grep "key=" | sed 's/.*key=\([^ ]*\).*/\1/' | sort -u | head -4 | tr '\n' ' ')
  echo -e "$id\t$prop\t$rc\t$keys" >> $out
  python3 - "$d" "$prop" "$rc" "$keys" <<'PY'
import json,sys
d,prop,rc,keys=sys.argv[1:5]
p=d+'/meta.json'; m=json.load(open(p))
m['detected_by']={"check":f"./check {prop} --tier quick","exit":int(rc),"violation_keys":keys.split(),"detected":rc=="1"}
json.dump(m,open(p,'w'),indent=1)
PY
  rm -f $log
done
rm -rf replays
cat $out
