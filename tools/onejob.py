import sys, time, importlib
sys.path.insert(0,'/verif')
from symx import runner
mod=importlib.import_module('harness.'+sys.argv[1])
pat=sys.argv[2]
tier=sys.argv[3] if len(sys.argv)>3 else 'quick'
js=[j for j in mod.jobs(tier) if pat in j.name][:int(sys.argv[4]) if len(sys.argv)>4 else 3]
for j in js:
    jc=runner.JobCtx(sys.argv[1], j, tier, time.time()+600)
    t=time.time()
    try:
        j.fn(jc)
    except Exception as e:
        import traceback; traceback.print_exc()
    s=jc.summary()
    print(j.name, 'paths',s['paths'],'q',s['q'],'solver',s['solver_s'],'wall',round(time.time()-t,1))
    for x in s['inconclusive'][:3]: print('  INC',x[:800])
    for v in s['violations'][:3]: print('  VIOL',str(v)[:600])
    print('  reached',s['reached'], 'cut', s['cut_reasons'])
