#!/bin/bash
# tools/try_seed.sh <patch.diff> <Cxx> [tier]  : apply a seeded defect to /repo, run the check, always undo.
patch=$1; prop=$2; tier=${3:-quick}
cd /verif
git -C /repo apply "$patch" || { echo "patch does not apply"; exit 9; }
trap 'git -C /repo checkout -- . ' EXIT
./check $prop --tier $tier 2>&1 | grep -E "VIOLATION|KNOWN-FINDING|INCONCLUSIVE|status=" | cut -c1-400
echo "exit=${PIPESTATUS[0]}"
