#!/bin/bash
# tools/confirm_seed.sh <seed_src_dir> <Cxx> <k>
# Confirms a sub-agent's seeded defect in a fresh scratch worktree:
#   (1) patch applies, (2) the pinned test suite still has the same 235 passing,
#   (3) demo fails with the patch, (4) demo passes without it.
# On success copies it to /verif/seeded/<Cxx>-m<k>/ with meta.json.
src=$1; prop=$2; k=$3
wt=/tmp/confirm_${prop}_m$k
out=/verif/seeded/${prop}-${4:-m}$k
rm -rf $wt; git -C /repo worktree add -q $wt HEAD || exit 9
cleanup(){ git -C /repo worktree remove --force $wt 2>/dev/null; rm -rf $wt /tmp/confirm_${prop}_m${k}.junit.xml /tmp/confirm_tmp_${prop}_m$k; }
trap cleanup EXIT
demo=$(ls $src/demo*.py | head -1)
cd $wt
mkdir -p /tmp/confirm_tmp_${prop}_m$k; export PYTHONPATH=$wt/src PYTHONDONTWRITEBYTECODE=1 TMPDIR=/tmp/confirm_tmp_${prop}_m$k  # tests write $TMPDIR/test.fea: keep it private
( cd $src && timeout 600 /venv/bin/python $demo >/tmp/confirm_${prop}_m${k}.clean.log 2>&1 ); clean_rc=$?
git apply $src/patch.diff || { echo "$prop m$k: patch does not apply"; exit 1; }
( cd $src && timeout 600 /venv/bin/python $demo >/tmp/confirm_${prop}_m${k}.mut.log 2>&1 ); mut_rc=$?
timeout 1800 /venv/bin/python -m pytest -q -p no:cacheprovider --timeout=900 --continue-on-collection-errors --junitxml=/tmp/confirm_${prop}_m${k}.junit.xml >/dev/null 2>&1
passed=$(python3 - <<PY
import json,xml.etree.ElementTree as ET
base=set(json.load(open('/root/.vp/BASELINE.json'))['stable_pass'])
ok=set()
for tc in ET.parse('/tmp/confirm_${prop}_m${k}.junit.xml').getroot().iter('testcase'):
    if not any(c.tag in('failure','error','skipped') for c in tc):
        ok.add(tc.get('classname')+'::'+tc.get('name'))
print(len(base&ok), len(base-ok))
PY
)
rm -f /tmp/confirm_${prop}_m${k}.clean.log /tmp/confirm_${prop}_m${k}.mut.log
echo "$prop m$k: demo_clean_rc=$clean_rc demo_mut_rc=$mut_rc baseline_pass/missing=$passed"
set -- $passed
if [ "$clean_rc" = 0 ] && [ "$mut_rc" != 0 ] && [ "$1" = 235 ] && [ "$2" = 0 ]; then
  mkdir -p $out; cp $src/patch.diff $out/; cp $demo $out/; [ -f $src/notes.md ] && cp $src/notes.md $out/
  python3 - <<PY
import json
json.dump({"property":"$prop","source":"independent sub-agent given only the property text and a scratch worktree",
 "needs_to_manifest": open("$src/notes.md").read() if __import__('os').path.exists("$src/notes.md") else "",
 "confirmed":{"patch_applies":True,"baseline_tests_passing_with_patch":235,"demo_exit_without_patch":$clean_rc,"demo_exit_with_patch":$mut_rc,
 "how":"tools/confirm_seed.sh in a scratch git worktree of /repo (removed afterwards)"},
 "detected_by": None}, open("$out/meta.json","w"), indent=1)
PY
  echo "$prop m$k: CONFIRMED -> $out"
else
  echo "$prop m$k: NOT CONFIRMED"
fi
