#!/bin/bash
# tools/one_seed.sh seeded/<id> [tier] : one row of tools/seed_matrix.sh (scratch worktree + patch, the
# property's own check against it, evidence redirected, everything removed afterwards); keeps the log in /tmp/os_<id>.log
cd /verif
d=${1%/}; tier=${2:-quick}; id=$(basename $d); prop=${id%%-*}
patch=/verif/$d/patch.diff; [ -f /verif/$d/patch_rebased.diff ] && patch=/verif/$d/patch_rebased.diff
wt=/tmp/mx_$id; outd=/tmp/mx_out_$id
rm -rf $wt $outd; git -C /repo worktree add -q $wt HEAD || exit 9
trap 'git -C /repo worktree remove --force $wt 2>/dev/null; rm -rf $wt $outd' EXIT
git -C $wt apply $patch || { echo "$id: patch does not apply"; exit 9; }
PYTHONPATH=$wt/src SYMX_OUT_DIR=$outd timeout 2400 ./check $prop --tier $tier > /tmp/os_$id.log 2>&1; rc=$?
keys=$(grep -A1 "^VIOLATION" /tmp/os_$id.log | grep "key=" | sed 's/.*key=\([^ ]*\).*/\1/' | sort -u | head -4 | tr '\n' ' ')
echo -e "$id\t$prop\t$rc\t$keys"
python3 - "$d" "$prop" "$rc" "$keys" <<'PY'
import json,sys
d,prop,rc,keys=sys.argv[1:5]
p=d+'/meta.json'; m=json.load(open(p))
m['detected_by']={"check":f"./check {prop} --tier quick","exit":int(rc),"violation_keys":keys.split(),"detected":rc=="1"}
json.dump(m,open(p,'w'),indent=1)
PY
