#!/bin/bash
# tools/run_all.sh quick|thorough : run every registered check once, log exit code and wall time
tier=${1:-quick}
cd /verif
for p in $(python3 -c "import json;print(' '.join(c['property_id'] for c in json.load(open('MANIFEST.json'))['checks']))"); do
  s=$(date +%s)
  ./check $p --tier $tier > /tmp/run_all_$p.$tier.log 2>&1; rc=$?
  e=$(date +%s)
  echo "$p $tier rc=$rc wall=$((e-s))s $(grep -c '^VIOLATION' /tmp/run_all_$p.$tier.log) violations; $(grep '^\[' /tmp/run_all_$p.$tier.log | tail -1 | cut -c1-160)"
done
