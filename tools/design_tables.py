#!/usr/bin/env python3
"""Regenerates the two tables of DESIGN.md section 9 from what the machinery itself wrote:
   9.5 from evidence/<id>.json (the last run of every check), 9.6 from seeded/MATRIX.tsv + seeded/<id>/notes.md."""
import json, os, re, sys
V = os.path.dirname(os.path.dirname(os.path.abspath(__file__)))
man = json.load(open(os.path.join(V, "MANIFEST.json")))
print("| id | tier | jobs | feasible paths | SMT queries (unsat/sat/unknown) | solver s | wall s | functions of /repo executed |")
print("|---|---|---|---|---|---|---|---|")
for c in man["checks"]:
    pid = c["property_id"]
    p = os.path.join(V, "evidence", pid + ".json")
    if not os.path.exists(p):
        continue
    e = json.load(open(p))
    d = e.get("coverage", {})
    q = d.get("queries", {})
    fns = d.get("functions_encoded") or {}
    names = sorted({k.split(".")[-1] if not k.startswith("nanoemoji") else ".".join(k.split(".")[1:]) for k in fns if "nanoemoji" in k})
    print(f"| {pid} | {e.get('tier','?')} | {len(d.get('jobs', []))} | {d.get('states','?')} | {q.get('total','?')} ({q.get('unsat','?')}/{q.get('sat','?')}/{q.get('unknown','?')}) | {d.get('solver_s', d.get('solver_time_s','?'))} | {e.get('wall_s','?')} | {', '.join(names)[:400]} |")
print()
print("| seed | what it changes (first line of the author's note) | `./check` exit | violation keys reported |")
print("|---|---|---|---|")
for line in open(os.path.join(V, "seeded", "MATRIX.tsv")).read().splitlines()[1:]:
    sid, prop, rc, keys = (line.split("\t") + ["", ""])[:4]
    note = ""
    np_ = os.path.join(V, "seeded", sid, "notes.md")
    if os.path.exists(np_):
        for l in open(np_):
            l = l.strip().lstrip("#*- ").strip()
            if len(l) > 20:
                note = l[:130].replace("|", "/")
                break
    print(f"| {sid} | {note} | {rc} | {keys.strip()} |")
