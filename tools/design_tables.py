#!/usr/bin/env python3
"""Regenerates the two tables of DESIGN.md section 9 from what the machinery itself wrote:
   9.5 from evidence/<id>.json (the last run of every check), 9.6 from seeded/MATRIX.tsv + seeded/<id>/notes.md."""
import io, json, os, re, sys
V = os.path.dirname(os.path.dirname(os.path.abspath(__file__)))
SPLICE = "--splice" in sys.argv
_real_print = print
_buf = {"checks": io.StringIO(), "seeds": io.StringIO()}
_cur = ["checks"]
def print(*a, **k):
    if SPLICE:
        _real_print(*a, **k, file=_buf[_cur[0]])
    else:
        _real_print(*a, **k)
man = json.load(open(os.path.join(V, "MANIFEST.json")))
print("| id | tier | jobs | feasible paths | SMT queries (unsat/sat/unknown) | solver s | wall s | functions of /repo executed |")
print("|---|---|---|---|---|---|---|---|")
for c in man["checks"]:
    pid = c["property_id"]
    p = os.path.join(V, "evidence", pid + ".json")
    if not os.path.exists(p):
        continue
    e = json.load(open(p))
    d = e.get("coverage", {})
    q = d.get("queries", {})
    fns = d.get("functions_encoded") or {}
    names = sorted({k.split(".")[-1] if not k.startswith("nanoemoji") else ".".join(k.split(".")[1:]) for k in fns if "nanoemoji" in k})
    print(f"| {pid} | {e.get('tier','?')} | {len(d.get('jobs', []))} | {d.get('states','?')} | {q.get('total','?')} ({q.get('unsat','?')}/{q.get('sat','?')}/{q.get('unknown','?')}) | {d.get('solver_s', d.get('solver_time_s','?'))} | {e.get('wall_s','?')} | {', '.join(names)[:400]} |")
_cur[0] = "seeds"
print()
print("| seed | what it changes (first line of the author's note) | `./check` exit | violation keys reported |")
print("|---|---|---|---|")
for line in open(os.path.join(V, "seeded", "MATRIX.tsv")).read().splitlines()[1:]:
    sid, prop, rc, keys = (line.split("\t") + ["", ""])[:4]
    note = ""
    np_ = os.path.join(V, "seeded", sid, "notes.md")
    if os.path.exists(np_):
        for l in open(np_):
            l = l.strip().lstrip("#*- ").strip()
            if len(l) > 20:
                note = l[:130].replace("|", "/")
                break
    print(f"| {sid} | {note} | {rc} | {keys.strip()} |")

if SPLICE:
    p = os.path.join(V, "DESIGN.md")
    s = open(p).read()
    for name, buf in _buf.items():
        a, b = f"<!-- TABLE:{name} -->", f"<!-- /TABLE:{name} -->"
        if a in s and b in s:
            s = s[: s.index(a) + len(a)] + "\n" + buf.getvalue().strip() + "\n" + s[s.index(b):]
    lg = "/tmp/run_all_thorough.log"
    a, b = "<!-- TABLE:thorough -->", "<!-- /TABLE:thorough -->"
    if os.path.exists(lg) and a in s:
        rows = ["| check | exit | wall | summary |", "|---|---|---|---|"]
        for l in open(lg):
            m = re.match(r"(C\d+) thorough rc=(\d+) wall=(\d+)s \d+ violations; (.*)", l.strip())
            if m:
                rows.append(f"| {m.group(1)} | {m.group(2)} | {m.group(3)} s | {m.group(4)[:170]} |")
        s = s[: s.index(a) + len(a)] + "\n" + "\n".join(rows) + "\n" + s[s.index(b):]
    open(p, "w").write(s)
