"""COLR semantics over fontTools ot.Paint graphs (what a COLRv1 renderer draws), written
from the OpenType COLR spec. Independent of nanoemoji.paint.Paint.from_ot/gettransform.
"""
from __future__ import annotations

from typing import List

from oracle import paint_semantics as ps

F = {
    1: "PaintColrLayers", 2: "PaintSolid", 4: "PaintLinearGradient", 6: "PaintRadialGradient", 10: "PaintGlyph",
    11: "PaintColrGlyph", 12: "PaintTransform", 14: "PaintTranslate", 16: "PaintScale", 18: "PaintScaleAroundCenter",
    20: "PaintScaleUniform", 22: "PaintScaleUniformAroundCenter", 24: "PaintRotate", 26: "PaintRotateAroundCenter",
    28: "PaintSkew", 30: "PaintSkewAroundCenter", 32: "PaintComposite",
}


def matrix_of(p):
    k = F[p.Format]
    c = lambda: (p.centerX, p.centerY)
    if k == "PaintTransform":
        t = p.Transform
        return (t.xx, t.yx, t.xy, t.yy, t.dx, t.dy)
    if k == "PaintTranslate":
        return ps.spec_matrix(k, dx=p.dx, dy=p.dy)
    if k == "PaintScale":
        return ps.spec_matrix(k, scaleX=p.scaleX, scaleY=p.scaleY)
    if k == "PaintScaleAroundCenter":
        return ps.spec_matrix(k, scaleX=p.scaleX, scaleY=p.scaleY, center=c())
    if k == "PaintScaleUniform":
        return ps.spec_matrix(k, scale=p.scale)
    if k == "PaintScaleUniformAroundCenter":
        return ps.spec_matrix(k, scale=p.scale, center=c())
    if k == "PaintRotate":
        return ps.spec_matrix(k, angle=p.angle)
    if k == "PaintRotateAroundCenter":
        return ps.spec_matrix(k, angle=p.angle, center=c())
    if k == "PaintSkew":
        return ps.spec_matrix(k, xSkewAngle=p.xSkewAngle, ySkewAngle=p.ySkewAngle)
    if k == "PaintSkewAroundCenter":
        return ps.spec_matrix(k, xSkewAngle=p.xSkewAngle, ySkewAngle=p.ySkewAngle, center=c())
    return None


class OtLeaf:
    def __init__(self, glyph, M, fill, groups):
        self.glyph, self.M, self.fill, self.groups = glyph, M, fill, groups


def _color(font, idx, alpha):
    """(kind, rgb or None, palette index or None, alpha)"""
    if idx == 0xFFFF:
        return ("currentColor", None, None, alpha)
    pal = font["CPAL"].palettes[0]
    e = pal[idx]
    multi = len(font["CPAL"].palettes) > 1
    return ("rgb", (e.red, e.green, e.blue), idx if multi else None, alpha * e.alpha / 255)


def _stops(font, p):
    return [(s.StopOffset, _color(font, s.PaletteIndex, s.Alpha)) for s in p.ColorLine.ColorStop], p.ColorLine.Extend


def fill_of(font, p, M):
    k = F[p.Format]
    m = matrix_of(p)
    if m is not None:
        return fill_of(font, p.Paint, ps.mul(M, m))
    if k == "PaintSolid":
        return ("solid", _color(font, p.PaletteIndex, p.Alpha))
    if k == "PaintLinearGradient":
        st, ext = _stops(font, p)
        return ("linear", ps.apply(M, (p.x0, p.y0)), ps.apply(M, (p.x1, p.y1)), ps.apply(M, (p.x2, p.y2)), st, ext)
    if k == "PaintRadialGradient":
        st, ext = _stops(font, p)
        return ("radial", (p.x0, p.y0), p.r0, (p.x1, p.y1), p.r1, M, st, ext)
    raise NotImplementedError(k)


def denote_ot(font, p, M=ps.IDENT, groups=()) -> List[OtLeaf]:
    k = F.get(p.Format)
    if k is None:
        raise NotImplementedError(p.Format)
    m = matrix_of(p)
    if m is not None:
        return denote_ot(font, p.Paint, ps.mul(M, m), groups)
    if k == "PaintColrLayers":
        out = []
        for child in font["COLR"].table.LayerList.Paint[p.FirstLayerIndex : p.FirstLayerIndex + p.NumLayers]:
            out += denote_ot(font, child, M, groups)
        return out
    if k == "PaintGlyph":
        return [OtLeaf(p.Glyph, M, fill_of(font, p.Paint, M), groups)]
    if k == "PaintColrGlyph":
        recs = [r for r in font["COLR"].table.BaseGlyphList.BaseGlyphPaintRecord if r.BaseGlyph == p.Glyph]
        return denote_ot(font, recs[0].Paint, M, groups)
    if k == "PaintComposite":
        if p.CompositeMode == 5 and p.BackdropPaint.Format == 2:
            c = _color(font, p.BackdropPaint.PaletteIndex, p.BackdropPaint.Alpha)
            if c[0] == "rgb" and tuple(c[1]) == (0, 0, 0):
                return denote_ot(font, p.SourcePaint, M, groups + (c[3],))
        raise NotImplementedError("composite")
    raise NotImplementedError(k)
