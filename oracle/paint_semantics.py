"""Oracle 2.1: COLR paint-graph semantics written from the OpenType COLR spec,
independent of nanoemoji's gettransform()/picosvg helpers.

Affines are plain 6-tuples (a, b, c, d, e, f):  x' = a x + c y + e ; y' = b x + d y + f.
All functions are polymorphic over python numbers and symx.SymNum.
"""
from __future__ import annotations

from fractions import Fraction
from typing import Any, List, Optional, Sequence, Tuple

import z3

from symx import core

IDENT = (1, 0, 0, 1, 0, 0)
_N_COUNTER = __import__("itertools").count()


def mul(A, B):
    """A∘B: apply B first, then A."""
    a1, b1, c1, d1, e1, f1 = A
    a2, b2, c2, d2, e2, f2 = B
    return (
        a1 * a2 + c1 * b2,
        b1 * a2 + d1 * b2,
        a1 * c2 + c1 * d2,
        b1 * c2 + d1 * d2,
        a1 * e2 + c1 * f2 + e1,
        b1 * e2 + d1 * f2 + f1,
    )


def ltr(*affs):
    """Compose left-to-right: first element is applied first."""
    r = IDENT
    for A in affs:
        r = mul(A, r)
    return r


def apply(A, p):
    a, b, c, d, e, f = A
    x, y = p
    return (a * x + c * y + e, b * x + d * y + f)


def apply_vec(A, v):
    a, b, c, d, e, f = A
    x, y = v
    return (a * x + c * y, b * x + d * y)


def det(A):
    return A[0] * A[3] - A[1] * A[2]


def translate(dx, dy):
    return (1, 0, 0, 1, dx, dy)


def around(center, M):
    cx, cy = center
    return mul(translate(cx, cy), mul(M, translate(-cx, -cy)))


def _deg_cos_sin(angle_deg):
    r = core.sym_radians(angle_deg) if isinstance(angle_deg, core.SymNum) else __import__("math").radians(angle_deg)
    return core.sym_cos(r), core.sym_sin(r)


def _deg_tan(angle_deg):
    r = core.sym_radians(angle_deg) if isinstance(angle_deg, core.SymNum) else __import__("math").radians(angle_deg)
    return core.sym_tan(r)


def spec_matrix(kind: str, **f):
    """Matrix of a COLRv1 transform paint per the OpenType COLR specification."""
    if kind == "PaintTransform":
        return tuple(f["transform"])
    if kind == "PaintTranslate":
        return translate(f["dx"], f["dy"])
    if kind == "PaintScale":
        return (f["scaleX"], 0, 0, f["scaleY"], 0, 0)
    if kind == "PaintScaleAroundCenter":
        return around(f["center"], (f["scaleX"], 0, 0, f["scaleY"], 0, 0))
    if kind == "PaintScaleUniform":
        return (f["scale"], 0, 0, f["scale"], 0, 0)
    if kind == "PaintScaleUniformAroundCenter":
        return around(f["center"], (f["scale"], 0, 0, f["scale"], 0, 0))
    if kind in ("PaintRotate", "PaintRotateAroundCenter"):
        c, s = _deg_cos_sin(f["angle"])
        M = (c, s, -s, c, 0, 0)  # counter-clockwise, y-up
        return around(f["center"], M) if kind.endswith("Center") else M
    if kind in ("PaintSkew", "PaintSkewAroundCenter"):
        tx = _deg_tan(f["xSkewAngle"])
        ty = _deg_tan(f["ySkewAngle"])
        M = (1, ty, -tx, 1, 0, 0)
        return around(f["center"], M) if kind.endswith("Center") else M
    raise KeyError(kind)


_TRANSFORM_KINDS = {
    "PaintTransform",
    "PaintTranslate",
    "PaintScale",
    "PaintScaleAroundCenter",
    "PaintScaleUniform",
    "PaintScaleUniformAroundCenter",
    "PaintRotate",
    "PaintRotateAroundCenter",
    "PaintSkew",
    "PaintSkewAroundCenter",
}


# COLR v1 paint format numbers (OpenType spec table "Paint formats"), not read from the code under test
_OT_FORMAT = {12: "PaintTransform", 14: "PaintTranslate", 16: "PaintScale", 18: "PaintScaleAroundCenter", 20: "PaintScaleUniform",
              22: "PaintScaleUniformAroundCenter", 24: "PaintRotate", 26: "PaintRotateAroundCenter", 28: "PaintSkew", 30: "PaintSkewAroundCenter"}


def ufo_paint_matrix(d) -> tuple:
    """Matrix denoted by a ufo2ft/fontTools-builder paint dictionary ({"Format": n, field: value, ...}) per the spec"""
    kind = _OT_FORMAT[int(d["Format"])]
    f = {k: v for k, v in d.items() if k not in ("Format", "Paint")}
    if "centerX" in f or "centerY" in f:
        f["center"] = (f.pop("centerX"), f.pop("centerY"))
    if kind == "PaintTransform":
        t = f["Transform"]
        f = {"transform": tuple(t) if not isinstance(t, dict) else (t["xx"], t["yx"], t["xy"], t["yy"], t["dx"], t["dy"])}
    return spec_matrix(kind, **f)


def paint_matrix(p) -> Optional[tuple]:
    """Spec matrix of a nanoemoji Paint dataclass instance, or None if not a transform."""
    kind = type(p).__name__
    if kind not in _TRANSFORM_KINDS:
        return None
    fields = {k: getattr(p, k) for k in p.__dataclass_fields__ if k != "paint"}
    return spec_matrix(kind, **fields)


# --------------------------------------------------------------------------- denotation


class Leaf:
    """One painted shape: outline glyph under M, filled by `fill` (in the same final space)."""

    def __init__(self, glyph, M, fill, groups):
        self.glyph = glyph
        self.M = M
        self.fill = fill
        self.groups = groups  # tuple of (group id, alpha)

    def __repr__(self):
        return f"Leaf({self.glyph!r}, M={self.M}, fill={self.fill[0]}, groups={self.groups})"


def _fill(p, M, group_counter):
    kind = type(p).__name__
    pm = paint_matrix(p)
    if pm is not None:
        return _fill(p.paint, mul(M, pm), group_counter)
    if kind == "PaintSolid":
        return ("solid", p.color)
    if kind == "PaintLinearGradient":
        return ("linear", apply(M, p.p0), apply(M, p.p1), apply(M, p.p2), p.stops, p.extend)
    if kind == "PaintRadialGradient":
        # circles are not closed under affine maps: keep the matrix
        return ("radial", tuple(p.c0), p.r0, tuple(p.c1), p.r1, M, p.stops, p.extend)
    raise NotImplementedError(f"fill {kind}")


def denote(p, M=IDENT, groups=(), counter=None) -> List[Leaf]:
    if counter is None:
        counter = [0]
    kind = type(p).__name__
    pm = paint_matrix(p)
    if pm is not None:
        return denote(p.paint, mul(M, pm), groups, counter)
    if kind == "PaintColrLayers":
        out = []
        for layer in p.layers:
            out += denote(layer, M, groups, counter)
        return out
    if kind == "PaintGlyph":
        return [Leaf(p.glyph, M, _fill(p.paint, M, counter), groups)]
    if kind == "PaintComposite":
        # only the group-opacity idiom has a leaf-list meaning
        assert p.mode.name == "SRC_IN" and type(p.backdrop).__name__ == "PaintSolid"
        counter[0] += 1
        g = (counter[0], p.backdrop.color.alpha)
        return denote(p.source, M, groups + (g,), counter)
    raise NotImplementedError(f"denote {kind}")


# --------------------------------------------------------------------------- equalities


def aff_eq(A, B, tol=0) -> z3.BoolRef:
    return z3.And(*[core.eq_tol(x, y, tol) for x, y in zip(A, B)])


def pt_eq(p, q, tol=0) -> z3.BoolRef:
    return z3.And(core.eq_tol(p[0], q[0], tol), core.eq_tol(p[1], q[1], tol))


def _perp(v):
    return (-v[1], v[0])


def _dot(a, b):
    return a[0] * b[0] + a[1] * b[1]


def _sub(a, b):
    return (a[0] - b[0], a[1] - b[1])


def linear_t(p0, p1, p2, q):
    """Gradient parameter at q per COLR spec as (numerator, denominator):
    t = ((q - p0)·n) / ((p1 - p0)·n),  n = perp(p2 - p0)
    (p3 is the projection of p1 onto the line through p0 perpendicular to p0p2;
    t along p0->p3 reduces to the ratio above)."""
    n = _perp(_sub(p2, p0))
    return _dot(_sub(q, p0), n), _dot(_sub(p1, p0), n)


PROBES = ((0, 0), (1, 0), (0, 1))


def linear_same(g1, g2, tol=0, probes=PROBES) -> z3.BoolRef:
    """Two linear gradients (p0,p1,p2) in the same space colour every point alike:
    equality of the affine functional t at three non-collinear probe points,
    cross-multiplied so no division reaches the solver."""
    conj = []
    for q in probes:
        n1, d1 = linear_t(*g1, q)
        n2, d2 = linear_t(*g2, q)
        conj.append(core.eq_tol(n1 * d2, n2 * d1, tol))
    return z3.And(*conj)


def linear_same_under(g, g2, T, tol=0, probes=PROBES) -> z3.BoolRef:
    """'g drawn under transform T' colours every point like 'g2 drawn directly':
    t_g(q) == t_g2(T q) at three non-collinear probes (cross-multiplied)."""
    conj = []
    for q in probes:
        n1, d1 = linear_t(*g, q)
        n2, d2 = linear_t(*g2, apply(T, q))
        conj.append(core.eq_tol(n1 * d2, n2 * d1, tol))
    return z3.And(*conj)


def radial_same(f1, f2, tol=0) -> z3.BoolRef:
    """f = (c0, r0, c1, r1, M): the circle family drawn under affine M.

    (g1, M1) and (g2, M2) colour every point alike iff N = M2^-1∘M1 maps each circle
    (c_i, r_i) of g1 onto circle (c_i', r_i') of g2, i.e. N is a similarity of ratio k
    with N c_i = c_i' and r_i' = k r_i. N is introduced as six fresh reals defined by
    M2∘N = M1 (unique when M2 is invertible), so no division reaches the solver.
    Returns (property, definitional constraints for N) -- pass the latter as `extra`.
    """
    c0, r0, c1, r1, M1 = f1
    d0, s0, d1, s1, M2 = f2
    N = tuple(core.SymNum(z3.Real(f"N!{next(_N_COUNTER)}")) for _ in range(6))
    defs = [core.as_term(got) == core.as_term(want) for got, want in zip(mul(M2, N), M1)]
    a, b, cc, d, e, f = N
    k2 = a * a + b * b
    conds = [
        core.eq_tol(a * a + b * b, cc * cc + d * d, tol),
        core.eq_tol(a * cc + b * d, 0, tol),
        pt_eq(apply(N, c0), d0, tol),
        pt_eq(apply(N, c1), d1, tol),
        core.eq_tol(s0 * s0, k2 * r0 * r0, tol),
        core.eq_tol(s1 * s1, k2 * r1 * r1, tol),
        core.as_term(s0) * core.as_term(r0) >= 0,
        core.as_term(s1) * core.as_term(r1) >= 0,
    ]
    return z3.And(*conds), defs


# ----------------------------------------------------------------- OT field ranges (COLR v1)

_FIXED = (-32768, Fraction(2**31 - 1, 2**16))  # Fixed 16.16
_F2DOT14 = (-2, Fraction(2**15 - 1, 2**14))
_INT16 = (-32768, 32767)
_UINT16 = (0, 65535)


def field_ranges(p, out=None, skip_radial_wrapper=False):
    """[(description, value, lo, hi)] for every numeric field of a nanoemoji paint tree that the COLR
    compiler packs into a fixed-width OT field (OpenType COLR v1 paint formats).  A value outside its
    range makes the table uncompilable (struct.error / OverflowError at save time)."""
    out = [] if out is None else out
    k = type(p).__name__
    add = lambda d, v, rng: out.append((f"{k}.{d}", v, rng[0], rng[1]))
    if k == "PaintTransform" and skip_radial_wrapper and type(p.paint).__name__ == "PaintRadialGradient":
        pass  # the non-uniform remainder PaintRadialGradient.apply_transform wraps its circles in (contract-stubbed in callers)
    elif k == "PaintTransform":
        for n, v in zip(("xx", "yx", "xy", "yy", "dx", "dy"), p.transform):
            add(n, v, _FIXED)
    elif k == "PaintTranslate":
        add("dx", p.dx, _INT16), add("dy", p.dy, _INT16)
    elif k in ("PaintScale", "PaintScaleAroundCenter"):
        add("scaleX", p.scaleX, _F2DOT14), add("scaleY", p.scaleY, _F2DOT14)
    elif k in ("PaintScaleUniform", "PaintScaleUniformAroundCenter"):
        add("scale", p.scale, _F2DOT14)
    elif k in ("PaintRotate", "PaintRotateAroundCenter"):
        out.append((f"{k}.angle/180", p.angle / 180, _F2DOT14[0], _F2DOT14[1]))
    elif k in ("PaintSkew", "PaintSkewAroundCenter"):
        out.append((f"{k}.xSkewAngle/180", p.xSkewAngle / 180, _F2DOT14[0], _F2DOT14[1]))
        out.append((f"{k}.ySkewAngle/180", p.ySkewAngle / 180, _F2DOT14[0], _F2DOT14[1]))
    elif k == "PaintLinearGradient":
        for n in ("p0", "p1", "p2"):
            q = getattr(p, n)
            add(n + ".x", q[0], _INT16), add(n + ".y", q[1], _INT16)
    elif k == "PaintRadialGradient":
        for n in ("c0", "c1"):
            q = getattr(p, n)
            add(n + ".x", q[0], _INT16), add(n + ".y", q[1], _INT16)
        add("r0", p.r0, _UINT16), add("r1", p.r1, _UINT16)
    if hasattr(p, "center"):
        add("center.x", p.center[0], _INT16), add("center.y", p.center[1], _INT16)
    for attr in ("paint", "source", "backdrop"):
        ch = getattr(p, attr, None)
        if ch is not None and hasattr(ch, "format"):
            field_ranges(ch, out, skip_radial_wrapper)
    for ch in getattr(p, "layers", ()) or ():
        field_ranges(ch, out, skip_radial_wrapper)
    return out


def encodable(p, gradients=True) -> z3.BoolRef:
    from symx import core

    conj = []
    for d, v, lo, hi in field_ranges(p, None, not gradients):
        if not gradients and "Gradient." in d:
            continue  # nanoemoji checks these itself and raises OverflowError (C16's overflow jobs)
        t = core.as_term(v)
        conj.append(z3.And(t >= z3.RealVal(Fraction(lo)), t <= z3.RealVal(Fraction(hi))))
    return z3.And(*conj) if conj else z3.BoolVal(True)


def unencodable_fields(p, slack=0.5):
    """concrete twin of `encodable` (slack: the compiler rounds int16 fields)"""
    bad = []
    for d, v, lo, hi in field_ranges(p):
        s = slack if hi in (32767, 65535) else 1e-9
        if not (float(lo) - s <= float(v) <= float(hi) + s):
            bad.append((d, float(v), float(lo), float(hi)))
    return bad
