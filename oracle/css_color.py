"""Independent reading of the colour strings nanoemoji accepts / emits (CSS Color Level 4 subset).

Used as the oracle side wherever a harness compares colours, so that a change to
nanoemoji.colors.Color.fromstring / to_string cannot move the oracle with it.
"""
from __future__ import annotations

import re
from fractions import Fraction
from typing import NamedTuple, Optional, Tuple

# the named colours the harness sources use (CSS named-colour table, sRGB)
NAMED = {
    "black": (0, 0, 0), "white": (255, 255, 255), "red": (255, 0, 0), "lime": (0, 255, 0), "green": (0, 128, 0), "blue": (0, 0, 255),
    "yellow": (255, 255, 0), "cyan": (0, 255, 255), "aqua": (0, 255, 255), "magenta": (255, 0, 255), "fuchsia": (255, 0, 255), "gray": (128, 128, 128), "grey": (128, 128, 128),
    "silver": (192, 192, 192), "maroon": (128, 0, 0), "olive": (128, 128, 0), "navy": (0, 0, 128), "purple": (128, 0, 128), "teal": (0, 128, 128), "orange": (255, 165, 0),
}


class Css(NamedTuple):
    rgb: Optional[Tuple[int, int, int]]  # None for currentColor
    alpha: Fraction  # the colour's own alpha channel
    palette_index: Optional[int]
    current: bool


def parse(s: str) -> Css:
    s = s.strip()
    m = re.fullmatch(r"var\(\s*--color(\d+)\s*,\s*(.+)\)", s)
    if m:
        inner = parse(m.group(2))
        return inner._replace(palette_index=int(m.group(1)))
    if s == "currentColor":
        return Css(None, Fraction(1), None, True)
    if s.startswith("#"):
        h = s[1:]
        if not re.fullmatch(r"[0-9a-fA-F]+", h) or len(h) not in (3, 4, 6, 8):
            raise ValueError(f"invalid hex colour {s!r}")
        if len(h) in (3, 4):
            h = "".join(c * 2 for c in h)
        v = [int(h[i:i + 2], 16) for i in range(0, len(h), 2)]
        return Css(tuple(v[:3]), Fraction(v[3], 255) if len(v) == 4 else Fraction(1), None, False)
    if s.lower() in NAMED:
        return Css(NAMED[s.lower()], Fraction(1), None, False)
    raise ValueError(f"colour {s!r} is outside the oracle's table")


# ----------------------------------------------------------------- symbolic strings (tokens)

_TOK = re.compile(r"⟦\d+(?::(0?)(\d*)([xX]))?⟧")


def _ndigits(p):
    import z3

    d = z3.IntVal(9)
    for k in range(8, 0, -1):
        d = z3.If(p < 16 ** k, k, d)
    return d


def _pow16(d):
    import z3

    t = z3.IntVal(16 ** 9)
    for k in range(8, -1, -1):
        t = z3.If(d == k, 16 ** k, t)
    return t


def parse_hex_sym(s: str, tokens: dict, feasible=lambda cond: True):
    """'#' + hex digits where runs of digits may be tokens "⟦n:02X⟧" (a symbolic int rendered with that
    format spec).  The digit count of a token is a function of its value and the spec's zero-padded width,
    as in str.format; the reading is split into cases by digit count (so every case is linear):
    -> list of (condition, {valid (Bool), r, g, b (Int), alpha (Real)}).  `feasible(cond)` prunes cases
    the caller's path condition excludes."""
    import z3

    assert s.startswith("#")
    body = s[1:]
    pieces = []  # ("lit", value) | ("tok", term, width)
    i = 0
    while i < len(body):
        m = _TOK.match(body, i)
        if m:
            if m.group(3) is None:
                raise ValueError(f"token without a hex format spec inside a colour: {s!r}")
            if m.group(2) and not m.group(1):
                raise ValueError(f"space-padded hex inside a colour: {s!r}")
            pieces.append(("tok", tokens[m.group(0)][1].t, int(m.group(2)) if m.group(2) else 0))
            i = m.end()
        else:
            ch = body[i]
            if ch not in "0123456789abcdefABCDEF":
                return [(z3.BoolVal(True), {"valid": z3.BoolVal(False), "r": z3.IntVal(0), "g": z3.IntVal(0), "b": z3.IntVal(0), "alpha": z3.RealVal(1)})]
            pieces.append(("lit", int(ch, 16)))
            i += 1

    def count_cond(p, width, d):
        """format(p, '0<width>X') has exactly d hex digits (p >= 0)"""
        lo = 0 if d == 1 else 16 ** (d - 1)
        natural = z3.And(p >= lo, p < 16 ** d)
        if width and d == width:
            return z3.And(p >= 0, p < 16 ** d)
        if width and d < width:
            return z3.BoolVal(False)
        return natural

    cases = []

    def rec(k, cond, D, V):
        if k == len(pieces):
            cases.append((cond, D, V))
            return
        pc = pieces[k]
        if pc[0] == "lit":
            rec(k + 1, cond, D + 1, V * 16 + pc[1])
            return
        _, p, width = pc
        for d in range(1, 10):
            c = count_cond(p, width, d) if d < 9 else p >= 16 ** 8
            c2 = z3.And(cond, c)
            if z3.is_false(z3.simplify(c2)) or not feasible(c2):
                continue
            rec(k + 1, c2, D + d, V * (16 ** d) + p)
        neg = z3.And(cond, p < 0)
        if feasible(neg):
            cases.append((neg, -1, z3.IntVal(0)))

    rec(0, z3.BoolVal(True), 0, z3.IntVal(0))
    out = []
    for cond, D, V in cases:
        nib = lambda k: (V / (16 ** k)) % 16  # z3 Int division is floor for a positive divisor
        byte = lambda k: (V / (256 ** k)) % 256
        one = z3.RealVal(1)
        if D == 3:
            rd = {"r": 17 * nib(2), "g": 17 * nib(1), "b": 17 * nib(0), "alpha": one}
        elif D == 4:
            rd = {"r": 17 * nib(3), "g": 17 * nib(2), "b": 17 * nib(1), "alpha": z3.ToReal(17 * nib(0)) / 255}
        elif D == 6:
            rd = {"r": byte(2), "g": byte(1), "b": byte(0), "alpha": one}
        elif D == 8:
            rd = {"r": byte(3), "g": byte(2), "b": byte(1), "alpha": z3.ToReal(byte(0)) / 255}
        else:
            rd = {"r": z3.IntVal(0), "g": z3.IntVal(0), "b": z3.IntVal(0), "alpha": one}
        rd["valid"] = z3.BoolVal(D in (3, 4, 6, 8))
        rd["digits"] = D
        out.append((cond, rd))
    return out
