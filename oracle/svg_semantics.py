"""Oracle 2.2: SVG rendering semantics for the subset nanoemoji emits, written from the
SVG spec (coordinate systems, <use>, userSpaceOnUse gradients), over the lxml tree the
real code produced. Understands symx tokens inside attribute values.

Result: list of SvgLeaf in paint order, all geometry mapped to the root user space.
"""
from __future__ import annotations

import re
from typing import Dict, List, Optional, Tuple

from lxml import etree

from symx import core
from oracle import paint_semantics as ps

XLINK_HREF = "{http://www.w3.org/1999/xlink}href"
_NUM = r"-?(?:⟦\d+⟧|\d+\.?\d*(?:[eE][-+]?\d+)?|\.\d+(?:[eE][-+]?\d+)?)"
_NUM_RE = re.compile(_NUM)


def num(s, tokens):
    return core.parse_number(s, tokens)


def nums(s, tokens):
    return [num(x, tokens) for x in _NUM_RE.findall(s)]


def parse_transform(s: Optional[str], tokens) -> tuple:
    if not s:
        return ps.IDENT
    M = ps.IDENT
    for m in re.finditer(r"(matrix|translate|scale)\s*\(([^)]*)\)", s):
        op, args = m.group(1), nums(m.group(2), tokens)
        if op == "matrix":
            T = tuple(args)
        elif op == "translate":
            T = ps.translate(args[0], args[1] if len(args) > 1 else 0)
        else:
            T = (args[0], 0, 0, args[1] if len(args) > 1 else args[0], 0, 0)
        M = ps.mul(M, T)  # transform list applies left to right as nested: M∘T
    return M


def parse_path(d: str, tokens) -> List[Tuple[str, List[tuple]]]:
    out = []
    for m in re.finditer(r"([MLCQZz])([^MLCQZz]*)", d):
        cmd, args = m.group(1).upper(), nums(m.group(2), tokens)
        pts = [(args[i], args[i + 1]) for i in range(0, len(args) - 1, 2)]
        out.append((cmd, pts))
    return out


class SvgLeaf:
    def __init__(self, segments, fill, opacity, groups, el):
        self.segments = segments  # [(cmd, [points in root space])]
        self.fill = fill
        self.opacity = opacity  # the element's own opacity (leaf alpha)
        self.groups = groups  # tuple of enclosing group opacities, outermost first
        self.el = el

    def points(self):
        return [p for _, pts in self.segments for p in pts]


def _local(el):
    return etree.QName(el.tag).localname if isinstance(el.tag, str) else ""


def denote_svg_subtree(root, element, tokens) -> List[SvgLeaf]:
    """Render only `element` (e.g. the <g id="glyphN">) of the document `root`."""
    return denote_svg(root, tokens, only=element)


def denote_svg(root, tokens, only=None, gradient_transform_hook=None) -> List[SvgLeaf]:
    ids: Dict[str, etree._Element] = {}
    for el in root.iter():
        if isinstance(el.tag, str) and "id" in el.attrib:
            ids[el.attrib["id"]] = el
    leaves: List[SvgLeaf] = []

    def gradient(el, N):
        kind = _local(el)
        gt = parse_transform(el.attrib.get("gradientTransform"), tokens)
        if gradient_transform_hook is not None and "gradientTransform" in el.attrib:
            gt = gradient_transform_hook(gt)  # lets a harness read back a documented, deliberate perturbation
        if el.attrib.get("gradientUnits", "objectBoundingBox") != "userSpaceOnUse":
            raise NotImplementedError("objectBoundingBox gradients are not emitted by nanoemoji")
        N = ps.mul(N, gt)
        stops = []
        for st in el:
            if _local(st) != "stop":
                continue
            stops.append((num(st.attrib.get("offset", "0"), tokens), st.attrib.get("stop-color", "black"),
                          num(st.attrib["stop-opacity"], tokens) if "stop-opacity" in st.attrib else 1))
        spread = el.attrib.get("spreadMethod", "pad")
        g = lambda k, d="0": num(el.attrib.get(k, d), tokens)
        if kind == "linearGradient":
            p0 = (g("x1"), g("y1"))
            p1 = (g("x2", "1"), g("y2"))
            p2 = (p0[0] - (p1[1] - p0[1]), p0[1] + (p1[0] - p0[0]))  # p0 + perp(p1 - p0)
            return ("linear", ps.apply(N, p0), ps.apply(N, p1), ps.apply(N, p2), stops, spread)
        if kind == "radialGradient":
            c1 = (g("cx"), g("cy"))
            r1 = g("r")
            c0 = (num(el.attrib["fx"], tokens) if "fx" in el.attrib else c1[0], num(el.attrib["fy"], tokens) if "fy" in el.attrib else c1[1])
            r0 = g("fr")
            return ("radial", c0, r0, c1, r1, N, stops, spread)
        raise NotImplementedError(kind)

    def fill_of(value, CTM):
        if value is None:
            return ("solid", "black")
        value = value.strip()
        m = re.fullmatch(r"url\(#([^)]+)\)", value)
        if m:
            return gradient(ids[m.group(1)], CTM)
        return ("solid", value)

    def walk(el, CTM, groups, inherited_fill, inherited_opacity, in_use=False):
        tag = _local(el)
        if tag in ("defs", "linearGradient", "radialGradient", "stop", ""):
            return
        if tag in ("svg",):
            for ch in el:
                walk(ch, CTM, groups, inherited_fill, 1)
            return
        T = parse_transform(el.attrib.get("transform"), tokens)
        if tag == "g":
            C2 = ps.mul(CTM, T)
            g2 = groups
            if "opacity" in el.attrib:
                g2 = groups + (num(el.attrib["opacity"], tokens),)
            f2 = el.attrib.get("fill", inherited_fill)
            for ch in el:
                walk(ch, C2, g2, f2, 1)
            return
        if tag == "path":
            C2 = ps.mul(CTM, T)
            segs = [(c, [ps.apply(C2, p) for p in pts]) for c, pts in parse_path(el.attrib.get("d", ""), tokens)]
            fval = el.attrib.get("fill", inherited_fill)
            op = num(el.attrib["opacity"], tokens) if "opacity" in el.attrib else 1
            leaves.append(SvgLeaf(segs, fill_of(fval, C2), op * inherited_opacity if not (isinstance(inherited_opacity, int) and inherited_opacity == 1) else op, groups, el))
            return
        if tag == "use":
            x = num(el.attrib.get("x", "0"), tokens)
            y = num(el.attrib.get("y", "0"), tokens)
            C2 = ps.mul(ps.mul(CTM, T), ps.translate(x, y))
            target = ids[el.attrib[XLINK_HREF].lstrip("#")]
            f2 = el.attrib.get("fill", inherited_fill)
            op = num(el.attrib["opacity"], tokens) if "opacity" in el.attrib else 1
            walk(target, C2, groups, f2, op, in_use=True)
            return
        raise NotImplementedError(tag)

    if only is not None:
        walk(only, ps.IDENT, (), None, 1)
        return leaves
    for ch in root:
        walk(ch, ps.IDENT, (), None, 1)
    return leaves
