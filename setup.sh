#!/bin/bash
# Creates /verif/.venv: an overlay over the repo's interpreter (/venv) that adds
# z3-solver and crosshair-tool from the offline wheelhouse. Idempotent.
set -e
cd "$(dirname "$0")"
V="$(pwd)/.venv"
if [ -x "$V/bin/python" ] && "$V/bin/python" -c "import z3, nanoemoji" >/dev/null 2>&1; then
  exit 0
fi
rm -rf "$V"
/venv/bin/python -m venv "$V"
SP=$("$V/bin/python" -c "import sysconfig; print(sysconfig.get_paths()['purelib'])")
echo "import site; site.addsitedir('/venv/lib/python3.12/site-packages')" > "$SP/_verif_overlay.pth"
PIP_NO_INDEX=1 "$V/bin/python" -m pip install -q --no-index --find-links /opt/veriftools/wheels z3-solver crosshair-tool >/dev/null 2>&1 \
  || PIP_NO_INDEX=1 "$V/bin/python" -m pip install -q --no-index --find-links /opt/veriftools/wheels z3-solver
"$V/bin/python" -c "import z3, nanoemoji; print('setup ok: z3', z3.get_version_string(), 'nanoemoji', nanoemoji.__file__)"
